#!/venv/bin/python
"""Single entry point:  check.py <ID> [--tier quick|thorough] [--replay FILE]

Exit 0: property held on everything explored (known findings are printed as KNOWN-FINDING lines).
Exit 1: at least one `VIOLATION property=<id> replay=<path>` line.
Exit 2: harness error (never a VIOLATION)."""
import argparse
import json
import os
import sys
import traceback

HERE = os.path.dirname(os.path.abspath(__file__))
REPO = os.environ.get("NV_REPO", "/repo")


def _reexec_if_needed():
    want = {"PYTHONHASHSEED": "0", "PYTHONDONTWRITEBYTECODE": "1"}
    if all(os.environ.get(k) == v for k, v in want.items()) and os.environ.get("NV_ENV") == "1":
        return
    env = dict(os.environ)
    env.update(want)
    env["NV_ENV"] = "1"
    deps = os.path.join(HERE, ".deps")
    env["PYTHONPATH"] = os.pathsep.join([REPO, HERE, deps] + [p for p in env.get("PYTHONPATH", "").split(os.pathsep) if p])
    os.execve(sys.executable, [sys.executable, "-B"] + sys.argv, env)


MODULES = {
    "C01": "nv.props.c01", "C02": "nv.props.c02", "C03": "nv.props.c03", "C04": "nv.props.c04", "C05": "nv.props.c05",
    "C06": "nv.props.c06", "C07": "nv.props.c07", "C08": "nv.props.c08", "C09": "nv.props.lexpos",
    "C10": "nv.props.lexpos", "C11": "nv.props.c11", "C12": "nv.props.c12", "C13": "nv.props.c13",
    "C14": "nv.props.c14", "C15": "nv.props.c15", "C16": "nv.props.c16", "C17": "nv.props.c17",
    "C18": "nv.props.c18", "C19": "nv.props.c19",
}


def main():
    try:    # `kill -USR1 <pid>` prints the Python stack of a (worker) process: for diagnosing a harness that seems stuck
        import faulthandler
        import signal
        faulthandler.register(signal.SIGUSR1, all_threads=True)
    except Exception:
        pass
    _reexec_if_needed()
    ap = argparse.ArgumentParser()
    ap.add_argument("pid")
    ap.add_argument("--tier", default=os.environ.get("VERIF_TIER", "quick"), choices=["quick", "thorough"])
    ap.add_argument("--replay")
    args = ap.parse_args()
    pid = args.pid.upper()
    try:
        seed = int(os.environ.get("VERIF_SEED", "1") or "1")
    except ValueError:
        seed = 1
    sys.path.insert(0, HERE)
    if REPO not in sys.path:
        sys.path.insert(0, REPO)
    try:
        import importlib
        import norminette  # noqa: the tree under test must import
        if not os.path.abspath(norminette.__file__).startswith(os.path.abspath(REPO)):
            print("HARNESS: norminette imported from %s, not from %s" % (norminette.__file__, REPO))
            return 2
        mod = importlib.import_module(MODULES[pid])
        from nv import core
        core.CURRENT_PID = pid
        if args.replay:
            with open(args.replay) as f:
                rec = json.load(f)
            if rec["case"].get("hard_hang"):
                # the recorded input made a worker hang below the reach of Python-level watchdogs: replay it in a child under a hard limit
                from nv import adapters
                c = rec["case"]
                how = core.guarded(lambda: adapters.analyse(c["name"], c["text"]), core.HARD_S)
                found = [(rec.get("key", "%s|HANG|hard-watchdog" % pid), "no answer within %d s" % core.HARD_S)] if how == "hang" else []
            else:
                found = mod.replay(pid, rec["case"])
            known = core.load_known(pid)
            bad = 0
            for key, what in found:
                if core.match_known(known, key):
                    print("KNOWN-FINDING: property=%s key=%s %s" % (pid, key, what))
                else:
                    bad += 1
                    print("VIOLATION property=%s replay=%s" % (pid, os.path.abspath(args.replay)))
                    print("  key=%s: %s" % (key, what))
            if not found:
                print("replay: property holds on this case")
            return 1 if bad else 0
        return mod.run(pid, args.tier, seed)
    except KeyError:
        print("HARNESS: unknown property %r" % pid)
        return 2
    except BaseException as e:  # noqa
        if isinstance(e, SystemExit):
            raise
        print("HARNESS: %s" % "".join(traceback.format_exception(e))[-3000:])
        return 2


if __name__ == "__main__":
    sys.exit(main())
