#!/venv/bin/python
"""atheris / libFuzzer targets for C05 (and the C10 round trip).  usage: target.py lexer|pipeline <corpus dir> [libFuzzer flags]"""
import os
import sys

import atheris

which = sys.argv[1]
with atheris.instrument_imports(include=["norminette"]):
    from norminette.file import File
    from norminette.lexer import Lexer
    from norminette.context import Context
    from norminette.registry import Registry
    from norminette.exceptions import CParsingError
from nv import budget, scan

LIMIT0 = sys.getrecursionlimit()


def decode(data):
    try:
        return data.decode("utf-8")
    except UnicodeDecodeError:
        return data.decode("latin-1")


def lexer_target(data):
    sys.setrecursionlimit(LIMIT0)
    text = decode(data)
    f = File("x.c", text)
    with budget.monitor(budget.budget_for(len(text))):
        toks = list(Lexer(f))       # any exception is a finding
    bad = [(e.highlights[0].lineno, e.highlights[0].column) for e in f.errors if e.name == "BAD_LEXEME"]
    res = scan.check(f.source, toks, bad)
    oracle = os.environ.get("NV_FUZZ_ORACLE", "C10")
    if not res["roundtrip"]:
        if oracle in ("C10", "C05"):
            raise AssertionError("C10 round trip: " + res["why"])
    elif oracle == "C09" and (res["positions_ok"] is False or res["bad_ok"] is False):
        raise AssertionError("C09 positions: %r" % (res["first_bad"],))


REG = Registry()


def pipeline_target(data):
    sys.setrecursionlimit(LIMIT0)
    if not data:
        return
    name = "f.h" if data[0] % 2 else "f.c"
    text = decode(data[1:])
    f = File(name, text)
    out = sys.stdout
    sys.stdout = open(os.devnull, "w")
    try:
        with budget.monitor(budget.budget_for(max(len(text) // 2, 50))) as cnt:
            toks = list(Lexer(f))
            cnt.limit = budget.budget_for(len(toks))
            Registry().run(Context(f, toks, 0, None))
        list(f.errors)
    except CParsingError:
        pass
    finally:
        sys.stdout.close()
        sys.stdout = out


atheris.Setup([sys.argv[0]] + sys.argv[2:], lexer_target if which == "lexer" else pipeline_target)
atheris.Fuzz()
