#!/bin/sh
# usage: tools/matrix2.sh <repo copy> <out file> <seed-suffix>   (like matrix.sh, for seeds ending in the given suffix)
R=$1; OUT=$2; SUF=$3
cd "$(dirname "$0")/.."
: > "$OUT"
for S in $(ls seeded | grep -- "-$SUF\$" | sort); do
  P="$PWD/seeded/$S/patch.diff"; [ -f "$PWD/seeded/$S/patch.rebased.diff" ] && P="$PWD/seeded/$S/patch.rebased.diff"
  git -C "$R" checkout -q -- . ; git -C "$R" apply "$P" || { echo "$S APPLY-FAILED" >> "$OUT"; continue; }
  for C in C01 C02 C03 C04 C05 C06 C07 C08 C09 C10 C11 C12 C13 C14 C15 C16 C17 C18 C19; do
    (
      NV_REPO="$R" /venv/bin/python -B check.py $C --tier quick > "/tmp/nvm-$S-$C.log" 2>&1; rc=$?
      v=$(grep -c '^VIOLATION' "/tmp/nvm-$S-$C.log")
      echo "$S $C exit=$rc violations=$v $(grep -A1 '^VIOLATION' /tmp/nvm-$S-$C.log | grep 'key=' | head -1 | cut -c1-120)" >> "$OUT"
      rm -f "/tmp/nvm-$S-$C.log"
    ) &
    while [ $(jobs -r | wc -l) -ge 3 ]; do sleep 1; done
  done
  wait
  git -C "$R" checkout -q -- .
done
echo DONE >> "$OUT"
