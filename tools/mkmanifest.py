#!/usr/bin/env python3
"""Regenerates /verif/MANIFEST.json from the table below (kept valid at all times)."""
import json
import os
import sys

HERE = os.path.dirname(os.path.dirname(os.path.abspath(__file__)))
PY = "/venv/bin/python -B"

# pid -> (technique, level text, level note, design ref)
BUILT = {
    "C01": ("grammar-based program generation (Hypothesis) with a validity oracle, in-process and through the CLI",
            "Programs are drawn from the conforming-program grammar (sources and headers, every constant family, nested control flow, continuation lines); "
            "each must be accepted: status OK, no Error-level diagnostic, CLI prints '<name>: OK!' and exits 0. Sampled from an infinite family; failures are bucketed by "
            "(diagnostic code, lexeme classes around it).",
            "The grammar is the trusted definition of conformance (narrowest reading of the Norm); constructs that are open findings are excluded by construction, counted, and re-observed on fixed probes.",
            "§4.1"),
    "C02": ("mutation of generated conforming programs by a catalogue of 104 violation operators at generated sites; expected-diagnostic oracle",
            "For every generated conforming program each applicable edit operator (one Norm violation, tied to one diagnostic code) is applied at sites enumerated from the program's site map; "
            "the expected code must be reported on the expected line, the file must be Error and the CLI must exit non-zero. Misses are bucketed by (operator, site class).",
            "Site predicates are trusted to describe where each enforced rule applies; rules the tool does not police are not in the catalogue; lenient classes found are open findings keyed (operator, site class).",
            "§4.2"),
    "C03": ("boundary-value construction: for every limit and every n in [L-3, L+6] a program with measure exactly n is built in a Hypothesis-drawn context; iff oracle",
            "Both directions at every boundary: the limit's diagnostic is reported for the measured object iff n > L and for no other object, over 21 kinds of line (code, // comment, first/interior/last line of a block comment, "
            "last line with and without newline...), body shapes, positions and surrounding functions.",
            "Contexts are sampled; widths are ASCII visual columns.", "§4.3"),
    "C04": ("exhaustive enumeration of file-class sequences (length 0..3/4, both argument modes) + Hypothesis-sampled longer ones, against a model of verdict lines and exit status; forked CLI validated against the real CLI",
            "Every sequence over {clean, notice-only, erroneous, fatal} up to the bound is run through the CLI as explicit paths and as a directory; verdict lines and exit status must match the model computed from independent in-process runs.",
            "Class representatives are generated per run (one per class); the forked-CLI adapter is cross-checked against real processes on every run.", "§4.4"),
    "C05": ("exhaustive small-alphabet enumeration + Hypothesis lexeme soups and long runs for the tokenizer; prefix / <=2-lexeme-edit damage of generated programs for the pipeline; step-budget monitor for termination; atheris/libFuzzer campaigns in the thorough tier",
            "Totality oracle: the tokenizer must return on every string; the pipeline must end in a verdict or exactly the controlled fatal error, within a step budget that grows quadratically with the input (measured head-room recorded); the CLI must never print a traceback. Failures are bucketed by (exception, innermost function, outermost rule).",
            "Non-termination is decided by a step count over the five primitives every loop of the tool goes through, not by the wall clock; damage limited to prefixes and <= 2 lexeme edits.", "§4.5"),
    "C06": ("history-based testing: generated sequences of files through one shared registry in a child forked from a pristine process, each step compared with the file alone in a fresh fork; sampled permutations of the rules directory listing in spawned interpreters",
            "Invariant over the history: the result of every step equals the file's result alone. Histories mix clean, violating, fatal (garbage, #if), lexical, recursion-sensitive and comment-laden files of both types, with debug and -R options; reversed orders; listing permutations on a generated corpus.",
            "Sampled histories (<= 6 steps) and permutations; forked children isolate leaked state from the harness.", "§4.6"),
    "C07": ("runtime monitor of Context.pop_tokens over generated programs (tiling / count / alignment / depth invariants) + fault injection of unrecognisable fragments at generated statement boundaries",
            "A test-side monitor records every token pop; on generated conforming and violating files the pops must tile the token list, and on conforming files the statement count must equal the model's, statements must start and end at line ends and the scope must be back at file level after each function. "
            "Eight self-delimiting garbage fragments inserted at generated boundaries (and as last line with/without newline) must stop the run with a fatal diagnostic, never be dropped under an OK! verdict.",
            "pop_tokens is trusted to be the only token consumer (asserted); unrecognisable text is limited to the fragment list.", "§4.7"),
    "C08": ("generated reports (family members, stacked multi-diagnostic variants, lexical multi-highlight diagnostics, non-ASCII) with a well-formedness + differential (JSON vs humanized) oracle; exhaustive comparator laws",
            "Every diagnostic is checked against the published catalogue and the file bounds, printed order must ascend, and the JSON report must describe the same files, verdicts and diagnostics in the same order as the humanized one "
            "(in-process formatters and CLI). The Error comparator is checked for irreflexivity, asymmetry, transitivity and position-consistency over all pairs/triples of a 72-object domain.",
            "The humanized report is parsed by the harness's own regular expressions (self-tested).", "§4.8"),
    "C09": ("exhaustive small-alphabet enumeration + Hypothesis lexeme soups against an independent alignment scanner",
            "Every token position is compared with the position recomputed from the raw text by a scanner that shares no code with the lexer; "
            "all strings up to a length bound over two reduced lexical alphabets are enumerated completely and longer lexeme soups are sampled. "
            "Exploration, not proof: it finds position arithmetic errors reachable within those bounds.",
            "Trusts the harness's column model (tab stops every 4, one column per other character) and the scanner's reading of the three documented normalisations.",
            "§4.9, §3.4"),
    "C10": ("exhaustive small-alphabet enumeration + Hypothesis lexeme soups; round-trip oracle through an independent alignment scanner",
            "Round trip: token texts must cover the whole raw input in order, up to the three documented normalisations, every uncovered character being reported as a bad lexeme. "
            "Complete over the enumerated sub-domains, sampled beyond.",
            "Trusts the scanner (self-tested on hand-written fixtures on every run); lexer exceptions are C05's.",
            "§4.10, §3.4"),
    "C11": ("exhaustive enumeration of the C11 constant grammar up to a digit bound (valid families) and of the malformed families L1-L10, each in several right contexts; one-token / matching-diagnostic oracle",
            "Every constant derivable up to the bound (all bases, first digits, 53 suffix spellings, exponent forms, empty parts, every escape with every prefix) must be one token with no lexical diagnostic; every malformed member must get its diagnostic inside the literal. Complete over the bound (exhaustive: true).",
            "Digit strings beyond the bound are not covered; the grammar tables are the harness's own, written from the standard.", "§4.11"),
    "C12": ("metamorphic testing: respelling (digraph/trigraph) and line-splice insertion on generated programs, lexeme soups and all operator pairs; token-sequence equality oracle",
            "For generated files and soups any subset of punctuators is respelled and any subset of lexeme boundaries receives a splice; the (type, value) token sequence must not change, "
            "all adjacent/separated operator pairs are enumerated for longest-match, and brace/bracket respelling must leave (level, code, line) of the analysis unchanged.",
            "The base tokenisation is the reference (its correctness is C09-C11's business).", "§4.12"),
    "C13": ("template-based generation of 42 headers with arbitrary fields + enumeration of 27 structural mutations; count oracle",
            "Generated stdheader field tuples in front of generated bodies must never yield INVALID_HEADER; each single structural mutation of the list must yield it exactly once.",
            "Field values fit the template's widths; only the listed single mutations.", "§4.13"),
    "C14": ("generated header names and bodies x enumerated guard variants G0-G8; expected-diagnostic oracle with the guard symbol computed by the harness",
            "For generated header names over [a-z0-9_.] and generated bodies: the correct guard is accepted, each guard mutation gets its protection diagnostic, .c files never get one.",
            "Names starting with a digit are excluded.", "§4.14"),
    "C15": ("generated directory trees and argument lists (Hypothesis) against a reference model of file selection; forked CLI validated against the real CLI",
            "Trees with look-alike suffixes, names with spaces/dots, directories named like sources, and argument lists mixing files, directories, repeats, missing paths and --use-gitignore; the multiset of verdict lines, the rejection messages and the exit status must match the model.",
            "No hidden entries/symlinks; gitignore patterns of three shapes that the harness evaluates itself.", "§4.15"),
    "C16": ("differential testing over generated option sets: every option combination against the --no-colors baseline, inline content against the stored file; forked CLI with real-CLI samples",
            "For generated conforming/violating files (define-related and Notice-only files over-sampled) the parsed verdict and diagnostic set must be identical under every drawn combination of colours, format, -o, -d/-dd, -R word and inline content; -R CheckDefine may only remove define-check diagnostics on #define lines.",
            "Files that are fatal under the baseline are outside the property; permissive reading of '#define-value diagnostics'.", "§4.16"),
    "C17": ("metamorphic testing on generated programs: same-width replacement of comment / literal interiors with code-like text",
            "Comment and literal interiors of generated conforming and violating files are replaced by code-like text of the same width; diagnostics must be identical including columns and order.",
            "Replacement alphabet excludes delimiters, backslash, tab, newline and '??' as the property states.", "§4.17"),
    "C18": ("metamorphic testing on generated programs: consistent class- and length-preserving identifier renaming, biased towards fragments of special words",
            "All user identifiers of generated conforming and violating files are renamed injectively within their naming class; diagnostics must be identical. "
            "Renamings are aimed at fragments of words the tool may treat specially and naming-rule violations are over-sampled, because spelling-dependent bugs live in a tiny region.",
            "Names the tool documents as special are never renamed.", "§4.18"),
    "C19": ("metamorphic testing on generated programs: header prepend, comment insertion at every top-level gap, function append; exact shift relation",
            "Three unrelated-text edits on generated conforming and violating files; the diagnostics must shift exactly (R1 +12 lines minus INVALID_HEADER, R2 +1 after the insertion point, R3 unchanged).",
            "Only top-level insertion points, as the property states.", "§4.19"),
}

NOT_YET = "check not built yet in this round (work in progress, see DESIGN.md §8)"


def main():
    props = [json.loads(l) for l in open(os.path.join(HERE, "properties.jsonl"))]
    checks, na = [], []
    for p in props:
        pid = p["id"]
        if pid in BUILT:
            tech, text, note, ref = BUILT[pid]
            checks.append({
                "property_id": pid,
                "quick_cmd": "%s check.py %s --tier quick" % (PY, pid),
                "thorough_cmd": "%s check.py %s --tier thorough" % (PY, pid),
                "evidence_file": "evidence/%s.json" % pid,
                "replay_cmd_template": "%s check.py %s --replay {path}" % (PY, pid),
                "engine": "nv",
                "level_claimed": {"category": "exploration", "text": text, "design_ref": "DESIGN.md " + ref},
                "level_note": note,
                "technique": "property-based testing: " + tech,
            })
        else:
            na.append({"property_id": pid, "reason": NOT_YET})
    man = {
        "version": 1,
        "setup_cmd": "sh tools/setup.sh",
        "hooks": {
            "guard": "NORMINETTE_VERIF",
            "enable": "no source hook is needed: all monitors are test-side wrappers installed by the checks themselves; checks import norminette from /repo's working tree",
            "baseline_off_cmd": "cd /repo && /venv/bin/python -m pytest -q -p no:cacheprovider",
            "source_commits": [],
            "add_only": True,
        },
        "engines": [{
            "name": "nv",
            "path": "check.py",
            "serves_properties": sorted(BUILT),
            "kind_free_text": "Hypothesis-driven generators (programs, lexeme soups, histories, trees), exhaustive enumeration of small sub-domains over 16 processes, explicit oracles; failures bucketed by root cause; replay files",
        }],
        "checks": checks,
        "notes": "Single entry point check.py <ID> --tier quick|thorough [--replay F]; VERIF_SEED seeds every random choice; exit 2 = harness error. Known findings: known_findings.json.",
        "not_applicable": na,
    }
    with open(os.path.join(HERE, "MANIFEST.json"), "w") as f:
        json.dump(man, f, indent=1)
    try:
        import jsonschema
        jsonschema.validate(man, json.load(open("/root/.vp/MANIFEST.schema.json")))
        print("MANIFEST.json valid; %d checks, %d not_applicable" % (len(checks), len(na)))
    except ImportError:
        print("MANIFEST.json written (jsonschema not available for validation)")


if __name__ == "__main__":
    sys.exit(main())
