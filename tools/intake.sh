#!/bin/sh
# usage: tools/intake.sh <PID> <suffix> <worktree>  — verify a seeded change made by a sub-agent and store it under seeded/<PID>-<suffix>
set -u
cd "$(dirname "$0")/.."
ID=$1; SUF=$2; W=$3
[ -f "$W/seed_out/patch.diff" ] || { echo "$ID: no patch"; exit 1; }
cd "$W"
git diff -- norminette > /tmp/intake.$$.diff
same=$(cmp -s /tmp/intake.$$.diff seed_out/patch.diff && echo same || echo DIFFERS)
t=$(PYTHONPATH=$W /venv/bin/python -m pytest -q -p no:cacheprovider 2>&1 | tail -1)
PYTHONPATH=$W timeout 300 /venv/bin/python seed_out/demo.py >/dev/null 2>&1; d1=$?
git apply -R seed_out/patch.diff; PYTHONPATH=$W timeout 300 /venv/bin/python seed_out/demo.py >/dev/null 2>&1; d0=$?; git apply seed_out/patch.diff
rm -f /tmp/intake.$$.diff
echo "$ID-$SUF: diff=$same | $t | demo(patched)=$d1 demo(clean)=$d0"
case "$t" in *"514 passed"*) ;; *) echo "  REJECTED: tests"; exit 1;; esac
[ "$d1" = "1" ] && [ "$d0" = "0" ] || { echo "  REJECTED: demo"; exit 1; }
D=/verif/seeded/$ID-$SUF; mkdir -p $D; cp seed_out/patch.diff seed_out/demo.py $D/
/venv/bin/python - "$ID" "$W" "$D" "$t" <<'PY'
import json,sys,subprocess
pid,w,d,t=sys.argv[1:5]
m=json.load(open(w+'/seed_out/meta.json'))
m["origin"]="independent sub-agent given only the property text(s), a list of ideas already taken, and a scratch worktree"
head=subprocess.run(["git","-C",w,"rev-parse","--short","HEAD"],capture_output=True,text=True).stdout.strip()
m["verified_by_me"]={"base_commit":head,"pytest_with_patch":t,"demo_with_patch_exit":1,"demo_without_patch_exit":0,
 "commands":["PYTHONPATH=<wt> /venv/bin/python -m pytest -q -p no:cacheprovider","PYTHONPATH=<wt> /venv/bin/python demo.py","git apply -R patch.diff && PYTHONPATH=<wt> /venv/bin/python demo.py"]}
json.dump(m,open(d+'/meta.json','w'),indent=1)
PY
