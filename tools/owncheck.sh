#!/bin/sh
# usage: tools/owncheck.sh <repo copy> <out file> [jobs]  — every seeded change against the quick check of its own property (and of the
# properties its meta.json lists under also_breaks), on a copy of /repo.  One line per (seed, check).
R=$1; OUT=$2; J=${3:-3}
cd "$(dirname "$0")/.."
: > "$OUT"
for S in $(ls seeded | sort); do
  grep -q superseded_by_fix "seeded/$S/meta.json" && { echo "$S superseded-by-fix" >> "$OUT"; continue; }
  P="$PWD/seeded/$S/patch.diff"; [ -f "$PWD/seeded/$S/patch.rebased.diff" ] && P="$PWD/seeded/$S/patch.rebased.diff"
  git -C "$R" checkout -q -- . ; git -C "$R" apply "$P" || { echo "$S APPLY-FAILED" >> "$OUT"; continue; }
  CS=$(/venv/bin/python -c "
import json,sys
m=json.load(open('seeded/$S/meta.json'))
print(' '.join([m['property']]+[c for c in m.get('also_breaks',[]) if c!=m['property']]))")
  for C in $CS; do
    (
      NV_REPO="$R" /venv/bin/python -B check.py $C --tier quick > "/tmp/nvo-$S-$C.log" 2>&1; rc=$?
      echo "$S $C exit=$rc $(grep -A1 '^VIOLATION' /tmp/nvo-$S-$C.log | grep 'key=' | head -1 | cut -c1-110)" >> "$OUT"
      rm -f "/tmp/nvo-$S-$C.log"
    ) &
    while [ $(jobs -r | wc -l) -ge $J ]; do sleep 1; done
  done
  wait
  git -C "$R" checkout -q -- .
done
echo DONE >> "$OUT"
