#!/bin/sh
# Offline setup: hypothesis into /venv (if missing), atheris into /verif/.deps (optional, C05 thorough).
set -e
cd "$(dirname "$0")/.."
/venv/bin/python -c "import hypothesis" 2>/dev/null || \
  /venv/bin/pip install --no-index --find-links /opt/veriftools/wheels hypothesis
/venv/bin/python -c "import sys; sys.path.insert(0, '.deps'); import atheris" 2>/dev/null || \
  /venv/bin/pip install --no-index --find-links /opt/veriftools/wheels --target .deps atheris >/dev/null 2>&1 || \
  echo "note: atheris not installable; C05 thorough will skip the libFuzzer campaigns"
/venv/bin/python -c "import hypothesis; print('hypothesis', hypothesis.__version__)"
