#!/bin/sh
# usage: tools/seedtest.sh <seed dir name> <PID> [tier]   — applies a seeded patch to /repo, runs one check, reverts.
set -u
cd "$(dirname "$0")/.."
S=seeded/$1; P=$2; T=${3:-quick}
if ! git -C /repo diff --quiet; then echo "refusing: /repo has uncommitted changes"; exit 3; fi
PATCHF="$PWD/$S/patch.diff"; [ -f "$PWD/$S/patch.rebased.diff" ] && PATCHF="$PWD/$S/patch.rebased.diff"
git -C /repo apply "$PATCHF" || exit 3
/venv/bin/python -B check.py "$P" --tier "$T" > /tmp/seedtest.$$.log 2>&1; rc=$?
git -C /repo checkout -- .
grep -c "^VIOLATION" /tmp/seedtest.$$.log | sed "s/^/violations: /"
grep -A1 "^VIOLATION" /tmp/seedtest.$$.log | grep "key=" | head -5
tail -1 /tmp/seedtest.$$.log
rm -f /tmp/seedtest.$$.log
rm -rf replays
echo "seed=$1 check=$P tier=$T exit=$rc"
