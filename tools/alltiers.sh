#!/bin/sh
# usage: tools/alltiers.sh <repo copy> <tier> <out file> [seed]
R=$1; T=$2; OUT=$3; SEED=${4:-1}
cd "$(dirname "$0")/.."
: > "$OUT"
for C in C01 C02 C03 C04 C05 C06 C07 C08 C09 C10 C11 C12 C13 C14 C15 C16 C17 C18 C19; do
  s=$(date +%s)
  VERIF_SEED=$SEED NV_REPO="$R" /venv/bin/python -B check.py $C --tier $T > "/tmp/nvt-$C.log" 2>&1; rc=$?
  e=$(date +%s)
  echo "$C exit=$rc secs=$((e-s)) $(tail -1 /tmp/nvt-$C.log | cut -c1-160)" >> "$OUT"
  grep -A1 '^VIOLATION' "/tmp/nvt-$C.log" | grep 'key=' | cut -c1-300 >> "$OUT"
  grep '^HARNESS' -A12 "/tmp/nvt-$C.log" | head -14 >> "$OUT"
  rm -f "/tmp/nvt-$C.log"
done
echo DONE >> "$OUT"
