"""The violation catalogue of DESIGN §4.2: edit operators over the site map of a conforming program.

Each operator is a generator  op(p) -> yields (site_class, apply)  where apply(q) edits the copy q
of the program in place and returns the 0-based index (in q.lines) of the line on which the
expected diagnostic must be reported.  `code` may be a string or a tuple of acceptable codes.
"""
from .prog import Lx, Line, SP, TABS, vwidth

OPS = {}


def op(oid, code, ftypes=("c", "h"), aux=False):
    """aux=True: not part of the violation catalogue of C02 (the tool cannot be expected to report it, e.g. a lexically
    ambiguous site); only used to build members of the 'violating family' for the relational properties."""
    def deco(fn):
        OPS[oid] = {"id": oid, "code": code if isinstance(code, tuple) else (code,), "fn": fn, "ftypes": ftypes, "aux": aux}
        return fn
    return deco


CODE_LINES = ("stmt", "decl", "proto", "funchead", "ctrl", "lbrace", "rbrace", "global", "member", "else", "cont", "typedef",
              "utype_open", "utype_close", "enumerator")
BODY_LINES = ("stmt", "ctrl", "else", "lbrace", "rbrace", "decl", "cont")


def odd_params(ln):
    """a parameter that is a function pointer whose return type is itself a pointer ('int *(*f)(void)'): the argument rules
    lose track of the remaining parameters there (open finding), so sites on such lines form their own class"""
    return any("ptr-in-type" in y.tags and j + 1 < len(ln.lex) and ln.lex[j + 1].t == "(" for j, y in enumerate(ln.lex))


def after_lone_identifier_paren(ln, k):
    """is the operator at k (written ' op ') preceded by '(identifier)' ?"""
    if k >= 2 and "paren-ident-close" in ln.lex[k - 2].tags:
        return True
    return k >= 4 and ln.lex[k - 2].t == ")" and ln.lex[k - 3].k in ("id", "type") and ln.lex[k - 4].t == "("


def after_group_opening_with_pointer_cast(ln, k):
    """is the operator at k (written ' op ') preceded by ')' closing a group '((T *)…' whose first element is a pointer cast to a
    struct/union/typedef type?"""
    if k < 2 or ln.lex[k - 2].t != ")":
        return False
    depth = 0
    for j in range(k - 2, -1, -1):
        t = ln.lex[j].t
        if t == ")":
            depth += 1
        elif t == "(":
            depth -= 1
            if depth == 0:
                jj = j + 1
                while jj < len(ln.lex) and ln.lex[jj].t == "(" and "cast-open" not in ln.lex[jj].tags:
                    jj += 1          # the cast may sit behind further opening parentheses
                nx = ln.lex[jj] if jj < len(ln.lex) else None
                if nx is None or "cast-open" not in nx.tags:
                    return False
                m = jj + 1
                words = []
                while m < len(ln.lex) and "cast-close" not in ln.lex[m].tags:
                    words.append(ln.lex[m])
                    m += 1
                return any(w.t == "*" for w in words) and any(w.k == "type" or w.t in ("struct", "union") for w in words)
    return False


def lead_tabs(ln):
    n = 0
    for x in ln.lex:
        if x.k == "tab" and x.t == "\t":
            n += 1
        else:
            break
    return n


def cls_of(p, i):
    ln = p.lines[i]
    c = ln.kind
    if ln.fn >= 0 and ln.kind not in ("funchead",):
        c += "@%d" % min(ln.depth, 3)
    return c


def in_function(ln):
    return ln.fn >= 0 and ln.kind != "funchead" and not (ln.kind in ("lbrace", "rbrace") and ln.depth == 0)


def nonblank_prev(p, i):
    j = i - 1
    while j >= 0 and p.lines[j].kind == "blank":
        j -= 1
    return j


# ---------------------------------------------------------------------------------------------
# whitespace / indentation


@op("W01", "SPC_BEFORE_NL")
def W01(p):
    for i, ln in enumerate(p.lines):
        if ln.kind in CODE_LINES and ln.lex:
            def ap(q, i=i):
                q.lines[i].lex.append(SP())
                return i
            yield cls_of(p, i), ap


@op("W02", ("SPACE_REPLACE_TAB", "TOO_FEW_TAB"))
def W02(p):
    for i, ln in enumerate(p.lines):
        if ln.kind in ("stmt", "ctrl", "else") and ln.depth >= 1 and ln.info.get("stmt") != "empty":
            def ap(q, i=i):
                n = lead_tabs(q.lines[i])
                q.lines[i].lex[:n] = [Lx("    ", "sp") for _ in range(n)]
                return i
            yield cls_of(p, i), ap


@op("W03", "TOO_FEW_TAB")
def W03(p):
    for i, ln in enumerate(p.lines):
        if ln.kind in ("stmt", "ctrl", "else", "lbrace", "rbrace") and ln.depth >= 1 and ln.fn >= 0:
            def ap(q, i=i):
                del q.lines[i].lex[0]
                return i
            yield "empty-stmt" if ln.info.get("stmt") == "empty" else cls_of(p, i), ap


@op("W04", "TOO_MANY_TAB")
def W04(p):
    for i, ln in enumerate(p.lines):
        if ln.kind in ("stmt", "ctrl", "else", "lbrace", "rbrace") and ln.fn >= 0:
            c = "empty-stmt" if ln.info.get("stmt") == "empty" else cls_of(p, i)
            if ln.kind == "lbrace" and ln.depth == 0:
                c = "func-lbrace"
            if ln.kind == "rbrace" and ln.depth == 0:
                c = "func-rbrace"

            def ap(q, i=i):
                q.lines[i].lex.insert(0, Lx("\t", "tab"))
                return i
            yield c, ap


def _after_cast_group(p, i):
    """a cast of a parenthesised expression anywhere earlier in the statement of line i (the rules lose track behind it)"""
    ln = p.lines[i]
    j = i - 1
    while j >= 0 and p.lines[j].sid == ln.sid:
        lx = [x for x in p.lines[j].lex if x.k not in ("sp", "tab")]
        if any("cast-close" in x.tags and m + 1 < len(lx) and lx[m + 1].t == "(" for m, x in enumerate(lx)):
            return True
        j -= 1
    return False


def _cont_class(p, i):
    ln = p.lines[i]
    first = p.lines[i - 1].kind != ln.kind
    if _after_cast_group(p, i):
        return "after-cast-of-parenthesised-expr"
    return "%s:%s" % (ln.info.get("K", ln.kind), "first" if first else "later")


@op("W09", "TOO_MANY_TAB")
def W09(p):
    """a continuation line (cut condition / assignment / call / prototype) indented one tab too deep"""
    for i, ln in enumerate(p.lines):
        if ln.kind in ("cont", "pcont") and vwidth(ln.text) <= 76:
            def ap(q, i=i):
                q.lines[i].lex.insert(0, Lx("\t", "tab"))
                return i
            yield _cont_class(p, i), ap


@op("W10", "TOO_FEW_TAB")
def W10(p):
    for i, ln in enumerate(p.lines):
        if ln.kind in ("cont", "pcont") and lead_tabs(ln) >= 1:
            def ap(q, i=i):
                del q.lines[i].lex[0]
                return i
            yield _cont_class(p, i), ap


def _binop_positions(ln, tags=("binop", "asgop"), ambiguous=False):
    """positions of binary/assignment operators written with a space on both sides.  An operator that could also be unary
    (+ - * &) right after a parenthesised lone identifier is left out unless asked for: "(a)-1" cannot be told from a cast
    without a symbol table, so no token-level tool can be expected to police the spacing there (DESIGN §4.1, §4.2)."""
    out = []
    for k, x in enumerate(ln.lex):
        if x.k == "op" and any(t in x.tags for t in tags):
            if 0 < k < len(ln.lex) - 1 and ln.lex[k - 1].k == "sp" and ln.lex[k + 1].k == "sp":
                if not ambiguous and x.t in ("+", "-", "*", "&") and after_lone_identifier_paren(ln, k):
                    continue
                out.append(k)
    return out


@op("W05", "CONSECUTIVE_SPC")
def W05(p):
    for i, ln in enumerate(p.lines):
        if ln.kind in ("stmt", "ctrl", "cont", "decl", "global"):
            for k in _binop_positions(ln):
                for side in (-1, 1):
                    def ap(q, i=i, k=k, side=side):
                        q.lines[i].lex.insert(k + (1 if side == 1 else 0), SP())
                        return i
                    yield cls_of(p, i) + (":before" if side == -1 else ":after"), ap
            for k, x in enumerate(ln.lex):
                if x.k == "comma" and k + 1 < len(ln.lex) and ln.lex[k + 1].k == "sp":
                    def ap(q, i=i, k=k):
                        q.lines[i].lex.insert(k + 1, SP())
                        return i
                    yield cls_of(p, i) + ":comma", ap


@op("W06", "TAB_INSTEAD_SPC")
def W06(p):
    for i, ln in enumerate(p.lines):
        if ln.kind in ("stmt", "ctrl") and ln.fn >= 0:
            for k in _binop_positions(ln):
                def ap(q, i=i, k=k):
                    q.lines[i].lex[k + 1] = Lx("\t", "tab")
                    return i
                yield cls_of(p, i), ap


@op("W07", "SPACE_EMPTY_LINE")
def W07(p):
    for i, ln in enumerate(p.lines):
        if ln.kind == "blank":
            for ch in (" ", "\t"):
                def ap(q, i=i, ch=ch):
                    q.lines[i].lex = [Lx(ch, "sp" if ch == " " else "tab")]
                    return i
                yield ("in-func" if ln.fn >= 0 else "top") + (":sp" if ch == " " else ":tab"), ap


@op("W08", "MIXED_SPACE_TAB")
def W08(p):
    for i, ln in enumerate(p.lines):
        if ln.kind in ("decl", "global", "member", "proto"):
            for k, x in enumerate(ln.lex):
                if "align" in x.tags:
                    def ap(q, i=i, k=k):
                        q.lines[i].lex.insert(k, SP())
                        return i
                    yield cls_of(p, i), ap
                    break


# ---------------------------------------------------------------------------------------------
# empty lines


@op("E01", "EMPTY_LINE_FUNCTION")
def E01(p):
    for i, ln in enumerate(p.lines):
        if i + 1 < len(p.lines) and ln.kind in ("stmt", "rbrace") and in_function(ln):
            nx = p.lines[i + 1]
            if nx.kind in ("stmt", "ctrl") and nx.fn == ln.fn and nx.sid != ln.sid:
                def ap(q, i=i):
                    q.lines.insert(i + 1, Line([], "blank", q.lines[i].depth, q.lines[i].fn))
                    return i + 1
                yield "after-" + ln.kind + "@%d" % min(ln.depth, 3), ap


@op("E02", "NL_AFTER_VAR_DECL", ("c",))
def E02(p):
    for i, ln in enumerate(p.lines):
        if ln.kind == "blank" and ln.info.get("after") == "decls":
            def ap(q, i=i):
                del q.lines[i]
                return i
            yield "decls", ap


@op("E03", "CONSECUTIVE_NEWLINES")
def E03(p):
    for i, ln in enumerate(p.lines):
        if ln.kind == "blank" and ln.fn < 0 and 0 < i < len(p.lines) - 1 and p.lines[i - 1].kind != "hdr":
            def ap(q, i=i):
                q.lines.insert(i + 1, Line([], "blank", 0, -1))
                return i + 1
            yield "top:after-" + p.lines[i - 1].kind, ap


@op("E04", "NEWLINE_PRECEDES_FUNC", ("c",))
def E04(p):
    for f in p.funcs:
        h = f["head"]
        if h >= 1 and p.lines[h - 1].kind == "blank" and h >= 2 and p.lines[h - 2].kind == "rbrace":
            def ap(q, h=h):
                del q.lines[h - 1]
                return h - 1
            yield "func", ap


@op("E05", "EMPTY_LINE_EOF")
def E05(p):
    def ap(q):
        q.lines.append(Line([], "blank", 0, -1))
        return len(q.lines) - 1
    yield p.ftype, ap


@op("E06", "EMPTY_LINE_FILE_START")
def E06(p):
    if p.lines and p.lines[0].kind == "hdr":
        def ap(q):
            q.lines.insert(0, Line([], "blank", 0, -1))
            return 0
        yield p.ftype, ap


@op("E07", "NL_AFTER_PREPROC", ("c",))
def E07(p):
    for i, ln in enumerate(p.lines):
        if ln.kind == "blank" and i >= 1 and p.lines[i - 1].kind in ("include", "define") and i + 1 < len(p.lines):
            nx = p.lines[i + 1]
            if nx.kind in ("global", "proto", "funchead"):
                def ap(q, i=i):
                    del q.lines[i]
                    return i
                yield "before-" + nx.kind, ap


# ---------------------------------------------------------------------------------------------
# declarations


def _decl_lines(p, fn):
    return [i for i, ln in enumerate(p.lines) if ln.kind == "decl" and ln.fn == fn]


@op("D01", "VAR_DECL_START_FUNC", ("c",))
def D01(p):
    for f in p.funcs:
        decls = _decl_lines(p, f["fn"])
        if not decls:
            continue
        last = decls[-1]
        # first statement line after the blank line
        j = last + 2
        if j < f["close"] and p.lines[j].kind == "stmt" and p.lines[j].depth == 1 and p.lines[last + 1].kind == "blank":
            # the statement must be complete on its line
            if j + 1 < len(p.lines) and p.lines[j + 1].kind == "cont":
                continue

            def ap(q, last=last, j=j):
                d = q.lines[last]
                if len([1 for x in q.lines if x.kind == "decl" and x.fn == d.fn]) == 1:
                    return None
                del q.lines[last]
                # blank now at last, stmt at last+1 ; move the declaration after the statement
                q.lines.insert(j, d)
                return j
            yield "after-first-stmt", ap


@op("D02", "DECL_ASSIGN_LINE", ("c",))
def D02(p):
    for i, ln in enumerate(p.lines):
        if ln.kind == "decl" and not ln.info["type"].startswith(("static", "const")):
            names = [k for k, x in enumerate(ln.lex) if "decl-name" in x.tags]
            if not names:
                continue
            k = names[0]
            # plain scalar / pointer declarators only
            if ln.lex[k + 1].k != "semi":
                continue
            star = k > 0 and ln.lex[k - 1].t == "*"

            def ap(q, i=i, k=k, star=star):
                q.lines[i].lex[k + 1:k + 1] = [SP(), Lx("=", "op"), SP(), Lx("NULL", "kw") if star else Lx("0", "num")]
                return i
            yield "ptr" if star else "scalar", ap


@op("D03", "MULT_DECL_LINE", ("c",))
def D03(p):
    for i, ln in enumerate(p.lines):
        if ln.kind == "decl":
            names = [k for k, x in enumerate(ln.lex) if "decl-name" in x.tags]
            if names and ln.lex[names[0] + 1].k == "semi" and ln.lex[names[0] - 1].k == "tab":
                k = names[0]

                def ap(q, i=i, k=k):
                    q.lines[i].lex[k + 1:k + 1] = [Lx(",", "comma"), SP(), Lx("zz", "id")]
                    return i
                yield "scalar", ap


def _not_first_of_scope(p, i):
    ln = p.lines[i]
    j = i - 1
    while j >= 0 and p.lines[j].kind == ln.kind and p.lines[j].fn == ln.fn:
        return True
    return False


@op("D04", "MISALIGNED_VAR_DECL")
def D04(p):
    for i, ln in enumerate(p.lines):
        if ln.kind in ("decl", "member", "global", "typedef") and i > 0 and p.lines[i - 1].kind == ln.kind and p.lines[i - 1].fn == ln.fn:
            al = [k for k, x in enumerate(ln.lex) if "align" in x.tags]
            if not al:
                continue
            # by declarator form: plain / pointer / function pointer / array (with a number or with an identifier as size)
            nm = [k for k, x in enumerate(ln.lex) if "decl-name" in x.tags]
            k0 = nm[0] if nm else 0
            if k0 and ln.lex[k0 - 1].t == "*" and k0 >= 2 and ln.lex[k0 - 2].t == "(":
                form = ":fptr"
            elif k0 + 1 < len(ln.lex) and ln.lex[k0 + 1].t == "[":
                close = next((j for j in range(k0 + 1, len(ln.lex)) if ln.lex[j].t == "]"), len(ln.lex))
                form = ":array-identifier-size" if any(x.k == "id" for x in ln.lex[k0 + 2:close]) else ":array"
            elif k0 and "ptr-decl" in ln.lex[k0 - 1].tags:
                form = ":ptr"
            else:
                form = ":plain"

            def ap(q, i=i, k=al[0]):
                q.lines[i].lex.insert(k, Lx("\t", "tab"))
                return i
            yield ln.kind + form + ":extra-tab", ap
            if len(al) >= 2:
                def ap2(q, i=i, k=al[0]):
                    del q.lines[i].lex[k]
                    return i
                yield ln.kind + form + ":one-less", ap2


@op("D05", "SPACE_REPLACE_TAB")
def D05(p):
    for i, ln in enumerate(p.lines):
        if ln.kind in ("decl", "member", "global"):
            al = [k for k, x in enumerate(ln.lex) if "align" in x.tags]
            if al:
                def ap(q, i=i, al=al):
                    q.lines[i].lex[al[0]:al[-1] + 1] = [SP()]
                    return i
                yield ln.kind, ap


@op("D06", "SPC_AFTER_POINTER")
def D06(p):
    for i, ln in enumerate(p.lines):
        if ln.kind in ("decl", "member", "global"):
            for k, x in enumerate(ln.lex):
                if "ptr-decl" in x.tags and ln.lex[k + 1].k == "id":
                    def ap(q, i=i, k=k):
                        q.lines[i].lex.insert(k + 1, SP())
                        return i
                    yield ln.kind, ap
                    break


@op("D07", "VLA_FORBIDDEN", ("c",))
def D07(p):
    for i, ln in enumerate(p.lines):
        if ln.kind == "decl":
            for k, x in enumerate(ln.lex):
                if x.t == "[" and ln.lex[k + 2].t == "]" and any("decl-name" in y.tags for y in ln.lex[:k]):
                    def ap(q, i=i, k=k):
                        q.lines[i].lex[k + 1] = Lx("n", "id")
                        return i
                    first = min(j for j, y in enumerate(ln.lex) if y.t == "[")
                    yield "array" + (":after-another-identifier" if any(y.k == "id" for y in ln.lex[first:k]) else ""), ap
                    break


@op("D08", "WRONG_SCOPE_VAR", ("c",))
def D08(p):
    for i, ln in enumerate(p.lines):
        if ln.kind == "lbrace" and ln.depth >= 1 and ln.fn >= 0:
            d = ln.depth + 1

            def ap(q, i=i, d=d):
                q.lines.insert(i + 1, Line(TABS(d) + [Lx("int", "kw"), Lx("\t", "tab"), Lx("zz", "id"), Lx(";", "semi")], "decl", d, q.lines[i].fn))
                q.lines.insert(i + 2, Line([], "blank", d, q.lines[i].fn))
                return i + 1
            yield "block@%d" % min(ln.depth, 3), ap


@op("D09", "IMPLICIT_VAR_TYPE", ("c",))
def D09(p):
    for i, ln in enumerate(p.lines):
        if ln.kind in ("decl", "global") and ln.info["type"].startswith("static ") and "const" not in ln.info["type"]:
            names = [k for k, x in enumerate(ln.lex) if "decl-name" in x.tags]
            if not names or (names[0] > 0 and ln.lex[names[0] - 1].t == "*"):
                continue
            if ln.lex[names[0] + 1].t == "[":
                continue

            def ap(q, i=i):
                lex = q.lines[i].lex
                ks = [k for k, x in enumerate(lex) if x.t == "static"][0]
                kn = [k for k, x in enumerate(lex) if "decl-name" in x.tags][0]
                # static<TAB>name;   (type and initialiser dropped)
                q.lines[i].lex = lex[:ks + 1] + [Lx("\t", "tab")] + [lex[kn], Lx(";", "semi")]
                return i
            yield ln.kind, ap


@op("D10", "TOO_MANY_VARS_FUNC", ("c",))
def D10(p):
    for f in p.funcs:
        decls = _decl_lines(p, f["fn"])
        if not decls or f["body_lines"] + (6 - len(decls)) > 25:
            continue

        def ap(q, decls=decls):
            last = decls[-1]
            src = q.lines[decls[0]]
            need = 6 - len(decls)
            al = [k for k, x in enumerate(src.lex) if "align" in x.tags]
            col = vwidth("".join(x.t for x in src.lex[:al[-1] + 1]))
            for n in range(need):
                tabs = (col - 4 - 3 + 3) // 4
                lex = TABS(1) + [Lx("int", "kw")] + [Lx("\t", "tab", ("align",)) for _ in range(tabs)] + [Lx("zz%d" % n, "id"), Lx(";", "semi")]
                q.lines.insert(last + 1 + n, Line(lex, "decl", 1, src.fn, info={"type": "int"}))
            return last + need
        yield "n=%d" % len(decls), ap


@op("D11", "FORBIDDEN_CHAR_NAME")
def D11(p):
    for i, ln in enumerate(p.lines):
        if ln.kind in ("decl", "member"):
            for k, x in enumerate(ln.lex):
                if "decl-name" in x.tags and x.k == "id" and any(c.islower() for c in x.t):
                    if "global-name" in x.tags or "typedef-name" in x.tags:
                        continue

                    def ap(q, i=i, k=k):
                        t = q.lines[i].lex[k].t
                        for n, c in enumerate(t):
                            if c.islower():
                                q.lines[i].lex[k].t = t[:n] + c.upper() + t[n + 1:]
                                break
                        return i
                    yield ln.kind + (":fptr-name" if k + 1 < len(ln.lex) and ln.lex[k + 1].t == ")" else ":name"), ap
                    break


@op("D12", "GLOBAL_VAR_NAMING", ("c",))
def D12(p):
    for i, ln in enumerate(p.lines):
        if ln.kind == "global":
            for k, x in enumerate(ln.lex):
                if "global-name" in x.tags:
                    def ap(q, i=i, k=k):
                        q.lines[i].lex[k].t = "x" + q.lines[i].lex[k].t[2:]
                        # keep the alignment column: nothing moves left of the name
                        return i
                    # site class by the shape of the declaration (the naming rule has to find the name behind all of them)
                    ty = ln.info.get("type", "")
                    words = ty.split(" ")
                    utype = any(w.startswith("t_") or w in ("struct", "union", "enum") for w in words)
                    form = "utype" if utype else "builtin"
                    if words and (words[-1] in ("const", "volatile") or words[-1].startswith("*")):
                        form += "-qualified"
                    nxt = ln.lex[k + 1].t if k + 1 < len(ln.lex) else ""
                    prv = ln.lex[k - 1].t if k else ""
                    decl = "fptr" if prv == "*" and k >= 2 and ln.lex[k - 2].t == "(" else "array" if nxt == "[" else "ptr" if prv == "*" else "plain"
                    yield "global:%s:%s" % (form, decl), ap


# ---------------------------------------------------------------------------------------------
# functions


@op("F01", "NO_ARGS_VOID")
def F01(p):
    for i, ln in enumerate(p.lines):
        if ln.kind in ("funchead", "proto"):
            for k, x in enumerate(ln.lex):
                if "void-params" in x.tags:
                    def ap(q, i=i, k=k):
                        del q.lines[i].lex[k]
                        return i
                    yield ln.kind, ap


@op("F02", "MISSING_IDENTIFIER")
def F02(p):
    for i, ln in enumerate(p.lines):
        if ln.kind in ("funchead", "proto"):
            for k, x in enumerate(ln.lex):
                if "param-name" in x.tags and ln.lex[k - 1].k == "sp" and ln.lex[k + 1].t in (",", ")"):
                    # what remains must be recognisably a type: keyword type
                    if ln.lex[k - 2].k == "kw":
                        def ap(q, i=i, k=k):
                            del q.lines[i].lex[k - 1:k + 1]
                            return i
                        odd = any("ptr-in-type" in y.tags and j + 1 < len(ln.lex) and ln.lex[j + 1].t == "(" for j, y in enumerate(ln.lex))
                        yield ln.kind + ":kw-type" + (":with-fptr-returning-pointer" if odd else ""), ap
                elif "param-name" in x.tags and "ptr-param" in ln.lex[k - 1].tags and ln.lex[k + 1].t in (",", ")"):
                    def ap(q, i=i, k=k):
                        del q.lines[i].lex[k]
                        return i
                    odd = any("ptr-in-type" in y.tags and j + 1 < len(ln.lex) and ln.lex[j + 1].t == "(" for j, y in enumerate(ln.lex))
                    yield ln.kind + ":ptr" + (":with-fptr-returning-pointer" if odd else ""), ap


@op("F03", "FORBIDDEN_CHAR_NAME", ("c",))
def F03(p):
    for i, ln in enumerate(p.lines):
        if ln.kind == "funchead":
            for k, x in enumerate(ln.lex):
                if "func-name" in x.tags:
                    def ap(q, i=i, k=k):
                        t = q.lines[i].lex[k].t
                        new = t
                        for n, c in enumerate(t):
                            if c.islower():
                                new = t[:n] + c.upper() + t[n + 1:]
                                break
                        q.lines[i].lex[k].t = new
                        for ln2 in q.lines:      # its forward declaration, if any, is the same (badly named) function
                            for y in ln2.lex:
                                if "forward-decl" in y.tags and y.t == t:
                                    y.t = new
                        return i
                    fwd = [j for j, ln2 in enumerate(p.lines) if any("forward-decl" in y.tags and y.t == x.t for y in ln2.lex)]
                    between = fwd and any(p.lines[j].kind in ("proto", "funchead") for j in range(fwd[0] + 1, i))
                    yield "funchead" + (":forward-declared" + (":others-between" if between else "") if fwd else ""), ap


@op("F04", "SPACE_BEFORE_FUNC", ("c",))
def F04(p):
    for i, ln in enumerate(p.lines):
        if ln.kind == "funchead":
            for k, x in enumerate(ln.lex):
                if "func-tab" in x.tags:
                    def ap(q, i=i, k=k):
                        q.lines[i].lex[k] = SP()
                        return i
                    yield "funchead", ap


@op("F05", "TOO_MANY_TABS_FUNC", ("c",))
def F05(p):
    for i, ln in enumerate(p.lines):
        if ln.kind == "funchead" and vwidth(ln.text) <= 76:
            for k, x in enumerate(ln.lex):
                if "func-tab" in x.tags:
                    def ap(q, i=i, k=k):
                        q.lines[i].lex.insert(k, Lx("\t", "tab"))
                        return i
                    yield "funchead", ap


@op("F06", "BRACE_NEWLINE")
def F06(p):
    for i, ln in enumerate(p.lines):
        if ln.kind in ("funchead", "utype_open") and i + 1 < len(p.lines) and p.lines[i + 1].kind == "lbrace" and vwidth(ln.text) <= 78:
            def ap(q, i=i):
                q.lines[i].lex += [SP(), Lx("{", "brace")]
                del q.lines[i + 1]
                return i
            yield ln.kind, ap


@op("F07", "TOO_MANY_ARGS")
def F07(p):
    for i, ln in enumerate(p.lines):
        if ln.kind in ("funchead", "proto"):
            closes = [k for k, x in enumerate(ln.lex) if "params-close" in x.tags]
            if not closes:
                continue
            k = closes[0]
            nparams = sum(1 for x in ln.lex if "param-name" in x.tags)
            need = 5 - nparams
            extra = []
            for n in range(need):
                if nparams + n > 0:
                    extra += [Lx(",", "comma"), SP()]
                extra += [Lx("int", "kw"), SP(), Lx("z%d" % n, "id")]
            if vwidth(ln.text) + sum(len(x.t) for x in extra) > 80:
                continue

            def ap(q, i=i, k=k, extra=extra, nparams=nparams):
                lex = q.lines[i].lex
                if nparams == 0:
                    kv = [j for j, x in enumerate(lex) if "void-params" in x.tags][0]
                    lex[kv:kv + 1] = extra
                else:
                    lex[k:k] = extra
                return i
            yield ln.kind + ":from%d" % nparams, ap


@op("F08", "MISALIGNED_FUNC_DECL")
def F08(p):
    for i, ln in enumerate(p.lines):
        if ln.kind == "proto" and i > 0 and p.lines[i - 1].kind == "proto" and vwidth(ln.text) <= 76:
            al = [k for k, x in enumerate(ln.lex) if "align" in x.tags]
            if al:
                def ap(q, i=i, k=al[0]):
                    q.lines[i].lex.insert(k, Lx("\t", "tab"))
                    return i
                yield p.ftype + ":extra-tab", ap


@op("F09", "TAB_INSTEAD_SPC")
def F09(p):
    for i, ln in enumerate(p.lines):
        if ln.kind in ("funchead", "proto"):
            for k, x in enumerate(ln.lex):
                if "param-name" in x.tags and ln.lex[k - 1].k == "sp" and ln.lex[k - 2].k == "kw":
                    def ap(q, i=i, k=k):
                        q.lines[i].lex[k - 1] = Lx("\t", "tab")
                        return i
                    cp = ln.lex[k - 2].t == "const" and k >= 3 and ln.lex[k - 3].t == "*"
                    yield ln.kind + (":after-const-pointer" if cp else ":kw-type" + (":with-fptr-returning-pointer" if odd_params(ln) else "")), ap
                    break
                if "param-name" in x.tags and ln.lex[k - 1].k == "sp" and ln.lex[k - 2].k == "type":
                    def ap(q, i=i, k=k):
                        q.lines[i].lex[k - 1] = Lx("\t", "tab")
                        return i
                    yield ln.kind + ":typedef-type", ap
                    break


@op("F10", "SPC_AFTER_POINTER")
def F10(p):
    for i, ln in enumerate(p.lines):
        if ln.kind in ("funchead", "proto"):
            for k, x in enumerate(ln.lex):
                if "ptr-param" in x.tags and "param-name" in ln.lex[k + 1].tags:
                    def ap(q, i=i, k=k):
                        q.lines[i].lex.insert(k + 1, SP())
                        return i
                    yield ln.kind, ap
                    break


def _simple_function(fn, name):
    return [
        Line([], "blank", 0, -1),
        Line([Lx("int", "kw"), Lx("\t", "tab", ("func-tab",)), Lx(name, "id", ("func-name",)), Lx("(", "par", ("params-open",)), Lx("void", "kw", ("void-params",)),
              Lx(")", "par", ("params-close",))], "funchead", 0, fn),
        Line([Lx("{", "brace")], "lbrace", 0, fn),
        Line(TABS(1) + [Lx("return", "kw"), SP(), Lx("(", "par"), Lx("0", "num"), Lx(")", "par"), Lx(";", "semi")], "stmt", 1, fn),
        Line([Lx("}", "brace")], "rbrace", 0, fn),
    ]


@op("F11", "TOO_MANY_FUNCS", ("c",))
def F11(p):
    n = len(p.funcs)
    if n >= 1:
        def ap(q, n=n):
            for k in range(n, 6):
                q.lines += _simple_function(100 + k, "zz_extra%d" % k)
            return len(q.lines) - 4
        yield "from%d" % n, ap


@op("F12", "TOO_MANY_LINES", ("c",))
def F12(p):
    for f in p.funcs:
        close = f["close"]
        body = close - f["open"] - 1

        def ap(q, close=close, body=body, fn=f["fn"]):
            for _ in range(26 - body):
                q.lines.insert(close, Line(TABS(1) + [Lx("zz_call", "id"), Lx("(", "par"), Lx(")", "par"), Lx(";", "semi")], "stmt", 1, fn))
            return close + (26 - body)
        # the statement goes after the last body line, which must not be a return for plausibility only; the tool does not care
        yield "body=%d" % min(body, 25), ap


# ---------------------------------------------------------------------------------------------
# control flow / one instruction per line


def _ctrl_lines(p, kw=None):
    for i, ln in enumerate(p.lines):
        if ln.kind == "ctrl" and (kw is None or ln.info.get("kw") == kw) and not (i + 1 < len(p.lines) and p.lines[i + 1].kind == "cont"):
            yield i, ln


@op("S01", "FORBIDDEN_CS", ("c",))
def S01(p):
    for i, ln in _ctrl_lines(p, "while"):
        if vwidth(ln.text) <= 74:
            def ap(q, i=i):
                lex = q.lines[i].lex
                k = [j for j, x in enumerate(lex) if x.t == "while"][0]
                lex[k] = Lx("for", "kw")
                ko = [j for j, x in enumerate(lex) if "ctrl-open" in x.tags][0]
                lex.insert(ko + 1, SP())
                lex.insert(ko + 1, Lx(";", "semi"))
                kc = [j for j, x in enumerate(lex) if "ctrl-close" in x.tags][0]
                lex.insert(kc, Lx(";", "semi"))
                return i
            yield "while@%d" % min(ln.depth, 3), ap


@op("S02", "FORBIDDEN_CS", ("c",))
def S02(p):
    for i, ln in _ctrl_lines(p, "if"):
        def ap(q, i=i):
            lex = q.lines[i].lex
            k = [j for j, x in enumerate(lex) if x.t == "if"][0]
            lex[k] = Lx("switch", "kw")
            return i
        yield "if@%d" % min(ln.depth, 3), ap


def _simple_stmt_lines(p):
    for i, ln in enumerate(p.lines):
        if ln.kind == "stmt" and ln.fn >= 0 and not (i + 1 < len(p.lines) and p.lines[i + 1].kind == "cont") and ln.info.get("stmt") not in ("empty",):
            yield i, ln


@op("S03", "GOTO_FBIDDEN", ("c",))
def S03(p):
    for i, ln in _simple_stmt_lines(p):
        if ln.info.get("stmt") in ("assign", "call", "incdec"):
            def ap(q, i=i):
                d = q.lines[i].depth
                q.lines[i].lex = TABS(d) + [Lx("goto", "kw"), SP(), Lx("zz_end", "id"), Lx(";", "semi")]
                return i
            yield "stmt@%d" % min(ln.depth, 3), ap


@op("S04", "LABEL_FBIDDEN", ("c",))
def S04(p):
    for i, ln in _simple_stmt_lines(p):
        if ln.depth == 1 and p.lines[i - 1].kind in ("stmt", "blank", "rbrace"):
            def ap(q, i=i):
                q.lines.insert(i, Line([Lx("zz_end", "id"), Lx(":", "op")], "stmt", 1, q.lines[i].fn))
                return i
            yield "before-stmt", ap


@op("S05", "TERNARY_FBIDDEN", ("c",))
def S05(p):
    for i, ln in _simple_stmt_lines(p):
        if ln.info.get("stmt") == "assign" and vwidth(ln.text) <= 68:
            ks = [k for k, x in enumerate(ln.lex) if "asgop" in x.tags]
            if ks:
                def ap(q, i=i, k=ks[0]):
                    q.lines[i].lex[k + 2:k + 2] = [Lx("zz", "id"), SP(), Lx("?", "op"), SP(), Lx("1", "num"), SP(), Lx(":", "op"), SP()]
                    return i
                yield "assign@%d" % min(ln.depth, 3), ap
    for i, ln in _ctrl_lines(p):
        if vwidth(ln.text) <= 66:
            def ap(q, i=i):
                lex = q.lines[i].lex
                ko = [j for j, x in enumerate(lex) if "ctrl-open" in x.tags][0]
                lex[ko + 1:ko + 1] = [Lx("zz", "id"), SP(), Lx("?", "op"), SP(), Lx("1", "num"), SP(), Lx(":", "op"), SP()]
                return i
            yield "in-condition:%s" % ln.info.get("kw"), ap
    for i, ln in _simple_stmt_lines(p):
        if ln.info.get("stmt") == "return" and vwidth(ln.text) <= 66:
            def ap(q, i=i):
                lex = q.lines[i].lex
                ko = [j for j, x in enumerate(lex) if "return-open" in x.tags][0]
                lex[ko + 1:ko + 1] = [Lx("zz", "id"), SP(), Lx("?", "op"), SP(), Lx("1", "num"), SP(), Lx(":", "op"), SP()]
                return i
            yield "in-return", ap


@op("S05b", "TERNARY_FBIDDEN")
def S05b(p):
    # a conditional expression as an initialiser: enumerator, global, static/const local
    for i, ln in enumerate(p.lines):
        if ln.kind in ("enumerator", "global", "decl") and vwidth(ln.text) <= 64:
            ks = [k for k, x in enumerate(ln.lex) if "init" in x.tags]
            if not ks and ln.kind == "enumerator":
                def ape(q, i=i):
                    lex = q.lines[i].lex
                    end = len(lex)
                    while end > 0 and lex[end - 1].k == "comma":
                        end -= 1
                    lex[end:end] = [SP(), Lx("=", "op"), SP(), Lx("(", "par"), Lx("ZZ_C", "id"), SP(), Lx("?", "op"), SP(), Lx("1", "num"), SP(), Lx(":", "op"), SP(),
                                    Lx("2", "num"), Lx(")", "par")]
                    return i
                yield "enumerator", ape
                continue
            if not ks or ln.lex[ks[0] + 2].t in ("{", '"') or ln.lex[ks[0] + 2].k == "str":
                continue

            def ap(q, i=i, k=ks[0]):
                lex = q.lines[i].lex
                end = len(lex)
                while end > 0 and lex[end - 1].k in ("semi", "comma"):
                    end -= 1
                lex.insert(end, Lx(")", "par"))
                lex[k + 2:k + 2] = [Lx("(", "par"), Lx("ZZ_C", "id"), SP(), Lx("?", "op"), SP(), Lx("1", "num"), SP(), Lx(":", "op"), SP()]
                return i
            yield ln.kind, ap


@op("S06", "ASSIGN_IN_CONTROL", ("c",))
def S06(p):
    for i, ln in _ctrl_lines(p):
        if vwidth(ln.text) <= 70:
            def ap(q, i=i):
                lex = q.lines[i].lex
                ko = [j for j, x in enumerate(lex) if "ctrl-open" in x.tags][0]
                kc = [j for j, x in enumerate(lex) if "ctrl-close" in x.tags][0]
                lex.insert(kc, Lx(")", "par"))
                lex[ko + 1:ko + 1] = [Lx("(", "par"), Lx("zz", "id"), SP(), Lx("=", "op"), SP()]
                return i
            yield "%s@%d" % (ln.info.get("kw"), min(ln.depth, 3)), ap


@op("S06b", "ASSIGN_IN_CONTROL", ("c",))
def S06b(p):
    """The assignment sits in a parenthesised group that opens on a continuation line of a cut condition."""
    for i, ln in enumerate(p.lines):
        if ln.kind == "cont" and ln.info.get("K") == "K1" and vwidth(ln.text) <= 70:
            def ap(q, i=i):
                lex = q.lines[i].lex
                k0 = lead_tabs(q.lines[i]) + 2          # after the leading && / || and its space
                kc = [j for j, x in enumerate(lex) if "ctrl-close" in x.tags]
                lex.insert(kc[0] if kc else len(lex), Lx(")", "par"))
                lex[k0:k0] = [Lx("(", "par"), Lx("zz", "id"), SP(), Lx("=", "op"), SP()]
                return i
            yield "%s@%d%s" % (ln.info.get("kw"), min(ln.depth, 3), "" if any("ctrl-close" in x.tags for x in ln.lex) else "-mid"), ap


@op("S07", "TOO_MANY_INSTR", ("c",))
def S07(p):
    for i, ln in _ctrl_lines(p):
        if i + 1 < len(p.lines):
            nx = p.lines[i + 1]
            if nx.kind == "stmt" and nx.depth == ln.depth + 1 and not (i + 2 < len(p.lines) and p.lines[i + 2].kind == "cont") and nx.info.get("stmt") != "empty":
                body = nx.lex[lead_tabs(nx):]
                if vwidth(ln.text) + 1 + sum(len(x.t) for x in body) <= 80:
                    def ap(q, i=i):
                        nxt = q.lines[i + 1]
                        q.lines[i].lex += [SP()] + nxt.lex[lead_tabs(nxt):]
                        del q.lines[i + 1]
                        return i
                    yield "%s@%d" % (ln.info.get("kw"), min(ln.depth, 3)), ap


@op("S08", "TOO_MANY_INSTR", ("c",))
def S08(p):
    for i, ln in _simple_stmt_lines(p):
        if i + 1 < len(p.lines):
            nx = p.lines[i + 1]
            if nx.kind == "stmt" and nx.depth == ln.depth and nx.fn == ln.fn and not (i + 2 < len(p.lines) and p.lines[i + 2].kind == "cont") \
                    and nx.info.get("stmt") != "empty" and ln.info.get("stmt") in ("assign", "call", "incdec", "voidcast"):
                body = nx.lex[lead_tabs(nx):]
                if vwidth(ln.text) + 1 + sum(len(x.t) for x in body) <= 80:
                    def ap(q, i=i):
                        nxt = q.lines[i + 1]
                        q.lines[i].lex += [SP()] + nxt.lex[lead_tabs(nxt):]
                        del q.lines[i + 1]
                        return i
                    yield "stmt@%d" % min(ln.depth, 3), ap


@op("S09", "MULT_ASSIGN_LINE", ("c",))
def S09(p):
    for i, ln in _simple_stmt_lines(p):
        if ln.info.get("stmt") == "assign" and vwidth(ln.text) <= 74:
            ks = [k for k, x in enumerate(ln.lex) if "asgop" in x.tags]
            if ks:
                def ap(q, i=i, k=ks[0]):
                    q.lines[i].lex[k + 2:k + 2] = [Lx("zz", "id"), SP(), Lx("=", "op"), SP()]
                    return i
                yield "assign@%d" % min(ln.depth, 3), ap


@op("S11", "WRONG_SCOPE", ("c",))
def S11(p):
    for f in p.funcs:
        h = f["head"]
        if h >= 1 and p.lines[h - 1].kind == "blank":
            def ap(q, h=h):
                q.lines[h:h] = [Line([Lx("if", "kw"), SP(), Lx("(", "par"), Lx("1", "num"), Lx(")", "par")], "ctrl", 0, -1),
                                Line(TABS(1) + [Lx("zz", "id"), Lx("(", "par"), Lx(")", "par"), Lx(";", "semi")], "stmt", 1, -1),
                                Line([], "blank", 0, -1)]
                return h
            yield "top", ap
            break


@op("S12", "EXP_NEWLINE", ("c",))
def S12(p):
    for i, ln in _ctrl_lines(p):
        if ln.info.get("kw") in ("if", "while") and i + 1 < len(p.lines):
            nx = p.lines[i + 1]
            if nx.kind == "stmt" and nx.depth == ln.depth + 1 and not (i + 2 < len(p.lines) and p.lines[i + 2].kind in ("cont", "else")) and vwidth(ln.text) <= 78:
                # not followed by else / else if (removing the body would orphan them)
                j = i + 2
                if j < len(p.lines) and (p.lines[j].kind == "else" or (p.lines[j].kind == "ctrl" and p.lines[j].info.get("kw") == "else if")):
                    continue

                def ap(q, i=i):
                    q.lines[i].lex += [SP(), Lx(";", "semi")]
                    del q.lines[i + 1]
                    return i
                yield "%s@%d" % (ln.info.get("kw"), min(ln.depth, 3)), ap


@op("S13", "BRACE_SHOULD_EOL", ("c",))
def S13(p):
    for i, ln in enumerate(p.lines):
        if ln.kind == "lbrace" and ln.fn >= 0 and i + 1 < len(p.lines):
            nx = p.lines[i + 1]
            if nx.kind == "stmt" and not (i + 2 < len(p.lines) and p.lines[i + 2].kind == "cont"):
                def ap(q, i=i):
                    nxt = q.lines[i + 1]
                    q.lines[i].lex += [SP()] + nxt.lex[lead_tabs(nxt):]
                    del q.lines[i + 1]
                    return i
                yield "lbrace@%d" % min(ln.depth, 3), ap


# ---------------------------------------------------------------------------------------------
# operators, keywords, parentheses


@op("O01", ("SPC_BFR_OPERATOR", "SPC_AFTER_PAR", "MAXIMAL_MUNCH"))   # MAXIMAL_MUNCH: '0x4e' glued to a sign is one pp-number   # after a closing parenthesis the rule words it from the parenthesis' side
def O01(p):
    for i, ln in enumerate(p.lines):
        if ln.kind in ("stmt", "ctrl", "cont", "decl", "global"):
            for k in _binop_positions(ln):
                if k >= 2 and not (ln.kind == "cont" and ln.lex[k - 2].k == "tab"):
                    if ln.lex[k].t[0] in "+-" and ln.lex[k - 2].k == "num" and any(c in ln.lex[k - 2].t for c in "eEpP"):
                        continue   # '0x4e' + '-' glued is one preprocessing number: another tokenisation, not a spacing violation

                    def ap(q, i=i, k=k):
                        del q.lines[i].lex[k - 1]
                        return i
                    if ln.lex[k].t in ("+", "-", "*", "&") and ln.lex[k - 2].t == ")":
                        yield "bin:sign-after-parenthesised-expr", ap
                    else:
                        yield cls_of(p, i) + ":" + ("asg" if "asgop" in ln.lex[k].tags else "bin"), ap


@op("O02a", ("SPC_AFTER_OPERATOR", "SPC_BFR_OPERATOR"))
def O02a(p):
    for i, ln in enumerate(p.lines):
        if ln.kind in ("stmt", "ctrl", "cont", "decl", "global"):
            for k in _binop_positions(ln):
                nxt = ln.lex[k + 2]
                if nxt.t in ("(", "[", "{"):
                    continue
                if ln.lex[k].t in ("+", "-") and nxt.k == "num":
                    continue
                if (ln.lex[k].t + nxt.t[:1]) in ("/*", "//", "--", "++", "&&", "||", "<<", ">>", "->") or (ln.lex[k].t[-1:] + nxt.t[:1]) in ("/*", "//"):
                    continue   # gluing would spell another token (a comment opener, ++ ...), i.e. another program

                def ap(q, i=i, k=k):
                    del q.lines[i].lex[k + 1]
                    return i
                pm_after_paren = ln.lex[k].t in ("+", "-", "*", "&") and ln.lex[k - 2].t == ")"
                grp = not pm_after_paren and nxt.k != "un" and nxt.t != "NULL" and after_group_opening_with_pointer_cast(ln, k)
                yield ("asg" if "asgop" in ln.lex[k].tags else "bin") + (":unary-next" if nxt.k == "un" else ":before-NULL" if nxt.t == "NULL" else
                                                                       ":sign-after-parenthesised-expr" if pm_after_paren else
                                                                       ":after-group-opening-with-pointer-cast" if grp else ":plain") + \
                    ("" if nxt.k == "un" or nxt.t == "NULL" or pm_after_paren or grp else "@" + ln.kind), ap


@op("O02b", ("SPC_BFR_PAR", "SPC_AFTER_OPERATOR"))
def O02b(p):
    for i, ln in enumerate(p.lines):
        if ln.kind in ("stmt", "ctrl", "cont"):
            for k in _binop_positions(ln):
                nxt = ln.lex[k + 2]
                if nxt.t != "(":
                    continue
                c = "pm" if ln.lex[k].t in ("+", "-") else "mult-or-and" if ln.lex[k].t in ("*", "&") else "bitor-xor" if ln.lex[k].t in ("|", "^") else "other"
                if "cast-open" in nxt.tags:
                    c += ":before-cast"

                def ap(q, i=i, k=k):
                    del q.lines[i].lex[k + 1]
                    return i
                yield c, ap


@op("O03", "SPC_AFTER_OPERATOR")
def O03(p):
    for i, ln in enumerate(p.lines):
        if ln.kind in ("stmt", "ctrl", "cont", "funchead", "proto", "global", "decl"):
            for k, x in enumerate(ln.lex):
                if x.k == "comma" and k + 2 < len(ln.lex) and ln.lex[k + 1].k == "sp":
                    def ap(q, i=i, k=k):
                        del q.lines[i].lex[k + 1]
                        return i
                    yield "unary-next" if ln.lex[k + 2].k == "un" else cls_of(p, i), ap


@op("O04", "NO_SPC_BFR_OPR")
def O04(p):
    for i, ln in enumerate(p.lines):
        if ln.kind in ("stmt", "ctrl", "cont", "funchead", "proto", "global"):
            for k, x in enumerate(ln.lex):
                if x.k == "comma" and k >= 1 and ln.lex[k - 1].k not in ("sp", "tab"):
                    def ap(q, i=i, k=k):
                        q.lines[i].lex.insert(k, SP())
                        return i
                    yield cls_of(p, i), ap


@op("O05", "SPACE_AFTER_KW", ("c",))
def O05(p):
    for i, ln in enumerate(p.lines):
        if ln.kind in ("stmt", "ctrl") and ln.fn >= 0:
            for k, x in enumerate(ln.lex):
                if x.k == "kw" and x.t in ("if", "while", "return", "break", "continue") and k + 1 < len(ln.lex) and ln.lex[k + 1].k == "sp":
                    def ap(q, i=i, k=k):
                        del q.lines[i].lex[k + 1]
                        return i
                    yield x.t, ap
                    break


@op("O06a", "NO_SPC_AFR_PAR")
def O06a(p):
    for i, ln in enumerate(p.lines):
        if ln.kind in ("stmt", "ctrl", "cont") and ln.fn >= 0:
            for k, x in enumerate(ln.lex):
                if x.t in ("(", "[") and k + 1 < len(ln.lex) and ln.lex[k + 1].t not in ("(", "[", ")", "]") and ln.lex[k + 1].k not in ("sp", "tab"):
                    c = "cast" if "cast-open" in x.tags else x.t
                    if c == "cast" and ln.lex[k + 1].t == "void":
                        c = "cast-void"

                    def ap(q, i=i, k=k):
                        q.lines[i].lex.insert(k + 1, SP())
                        return i
                    yield c, ap


@op("O06b", ("SPC_AFTER_PAR", "NO_SPC_AFR_PAR"))
def O06b(p):
    for i, ln in enumerate(p.lines):
        if ln.kind in ("stmt", "ctrl", "cont") and ln.fn >= 0:
            for k, x in enumerate(ln.lex):
                if x.t in ("(", "[") and k + 1 < len(ln.lex) and ln.lex[k + 1].t in ("(", "["):
                    def ap(q, i=i, k=k):
                        q.lines[i].lex.insert(k + 1, SP())
                        return i
                    yield x.t, ap


@op("O07", "NO_SPC_BFR_PAR")
def O07(p):
    for i, ln in enumerate(p.lines):
        if ln.kind in ("stmt", "ctrl", "cont") and ln.fn >= 0:
            for k, x in enumerate(ln.lex):
                if x.t in (")", "]") and k >= 1 and ln.lex[k - 1].k not in ("sp", "tab") and ln.lex[k - 1].t not in ("(", "["):
                    prev = ln.lex[k - 1]
                    if prev.k in ("id", "num"):
                        c = "after-operand"
                    elif prev.t in (")", "]"):
                        c = "after-close"
                    elif prev.k in ("kw", "type"):
                        c = "after-type-or-NULL"
                    elif prev.k in ("chr", "str"):
                        c = "after-literal"
                    else:
                        c = "after-" + prev.k

                    def ap(q, i=i, k=k):
                        q.lines[i].lex.insert(k, SP())
                        return i
                    yield c, ap


@op("O08", "RETURN_PARENTHESIS", ("c",))
def O08(p):
    for i, ln in _simple_stmt_lines(p):
        if ln.info.get("stmt") == "return":
            ko = [k for k, x in enumerate(ln.lex) if "return-open" in x.tags]
            kc = [k for k, x in enumerate(ln.lex) if "return-close" in x.tags]
            if ko and kc:
                inner = ln.lex[ko[0] + 1:kc[0]]
                # the value must not itself start with "(" and end with ")" as one group
                if inner and inner[0].t == "(":
                    continue

                def ap(q, i=i, ko=ko[0], kc=kc[0]):
                    del q.lines[i].lex[kc]
                    del q.lines[i].lex[ko]
                    return i
                yield "return@%d" % min(ln.depth, 3), ap


@op("O09", "SPC_AFTER_OPERATOR")
def O09(p):
    for i, ln in enumerate(p.lines):
        if ln.kind in ("stmt", "ctrl", "cont") and ln.fn >= 0:
            for k, x in enumerate(ln.lex):
                if x.k == "un" and x.t in ("-", "+", "~") and k + 1 < len(ln.lex) and ln.lex[k + 1].k in ("id", "num"):
                    def ap(q, i=i, k=k):
                        q.lines[i].lex.insert(k + 1, SP())
                        return i
                    yield "after-unary" if k > 0 and ln.lex[k - 1].k == "un" else "after-cast" if k > 0 and "cast-close" in ln.lex[k - 1].tags \
                        else "first-on-continuation-line" if ln.kind == "cont" and k > 0 and ln.lex[k - 1].k == "tab" else "plain", ap


@op("O10", "EOL_OPERATOR", ("c",))
def O10(p):
    for i, ln in enumerate(p.lines):
        if ln.kind == "cont" and ln.info.get("K") in ("K1", "K2"):
            lt = lead_tabs(ln)
            if len(ln.lex) > lt + 1 and ln.lex[lt].k == "op" and ln.lex[lt + 1].k == "sp" and vwidth(p.lines[i - 1].text) + 1 + len(ln.lex[lt].t) <= 80:
                def ap(q, i=i, lt=lt):
                    o = q.lines[i].lex[lt]
                    del q.lines[i].lex[lt:lt + 2]
                    q.lines[i - 1].lex += [SP(), o]
                    return i - 1
                # a cast of a parenthesised expression anywhere earlier in the statement makes the rule lose the operator
                after_cast_group = False
                j = i - 1
                while j >= 0 and p.lines[j].sid == ln.sid:
                    lx = [x for x in p.lines[j].lex if x.k not in ("sp", "tab")]
                    if any("cast-close" in x.tags and m + 1 < len(lx) and lx[m + 1].t == "(" for m, x in enumerate(lx)):
                        after_cast_group = True
                    j -= 1
                yield ln.info["K"] + (":after-cast-of-parenthesised-expr" if after_cast_group else ""), ap


@op("O11", "COMMA_START_LINE", ("c",))
def O11(p):
    for i, ln in enumerate(p.lines):
        if ln.kind == "cont" and ln.info.get("K") == "K3" and p.lines[i - 1].lex[-1].k == "comma" and vwidth(ln.text) <= 78:
            def ap(q, i=i):
                del q.lines[i - 1].lex[-1]
                lt = lead_tabs(q.lines[i])
                q.lines[i].lex[lt:lt] = [Lx(",", "comma"), SP()]
                return i - 1   # the tool points at the end of the line the comma was moved away from
            yield "K3", ap


# ---------------------------------------------------------------------------------------------
# comments


@op("K01", "WRONG_SCOPE_COMMENT", ("c",))
def K01(p):
    for i, ln in _simple_stmt_lines(p):
        for form in ("//", "/*"):
            def ap(q, i=i, form=form):
                d = q.lines[i].depth
                txt = "// note" if form == "//" else "/* note */"
                q.lines.insert(i, Line(TABS(d) + [Lx(txt, "cmt")], "comment", d, q.lines[i].fn))
                return i
            yield form + "@%d" % min(ln.depth, 3), ap


@op("K02", "WRONG_SCOPE_COMMENT", ("c",))
def K02(p):
    for i, ln in _simple_stmt_lines(p):
        if vwidth(ln.text) <= 68:
            for form in ("//", "/*"):
                def ap(q, i=i, form=form):
                    q.lines[i].lex += [SP(), Lx("// note" if form == "//" else "/* note */", "cmt")]
                    return i
                yield form + "@%d" % min(ln.depth, 3), ap


@op("K03", "COMMENT_ON_INSTR")
def K03(p):
    for i, ln in enumerate(p.lines):
        if ln.kind in ("proto", "global") and vwidth(ln.text) <= 68:
            # (a comma that ends the physical line of a cut prototype is left out: a comment there is a trailing comment)
            ks = [k for k, x in enumerate(ln.lex) if (x.k == "comma" or "asgop" in x.tags) and k + 1 < len(ln.lex)]
            if ks:
                def ap(q, i=i, k=ks[0]):
                    q.lines[i].lex[k + 1:k + 1] = [SP(), Lx("/* c */", "cmt")]
                    return i
                yield ln.kind, ap


# ---------------------------------------------------------------------------------------------
# preprocessor


@op("P01", "MACRO_NAME_CAPITAL")
def P01(p):
    for i, ln in enumerate(p.lines):
        if ln.kind == "define" and not ln.info.get("guard"):
            for k, x in enumerate(ln.lex):
                if "macro-def" in x.tags:
                    def ap(q, i=i, k=k):
                        t = q.lines[i].lex[k].t
                        q.lines[i].lex[k].t = t[0].lower() + t[1:]
                        return i
                    yield p.ftype, ap


@op("P02", "MACRO_FUNC_FORBIDDEN")
def P02(p):
    for i, ln in enumerate(p.lines):
        if ln.kind == "define" and not ln.info.get("guard") and ln.info.get("value") in ("num", "neg", "chr"):
            for k, x in enumerate(ln.lex):
                if "macro-def" in x.tags:
                    def ap(q, i=i, k=k):
                        q.lines[i].lex[k + 1:k + 1] = [Lx("(", "par"), Lx("x", "id"), Lx(")", "par")]
                        return i
                    yield p.ftype, ap


@op("P03", "PREPROC_CONSTANT")
def P03(p):
    for i, ln in enumerate(p.lines):
        if ln.kind == "define" and not ln.info.get("guard") and ln.info.get("value") == "num":
            def ap(q, i=i):
                q.lines[i].lex += [SP(), Lx("+", "op"), SP(), Lx("1", "num")]
                return i
            yield p.ftype, ap


@op("P04", "INCLUDE_HEADER_ONLY")
def P04(p):
    for i, ln in enumerate(p.lines):
        if ln.kind == "include":
            def ap(q, i=i):
                x = q.lines[i].lex[-1]
                x.t = x.t[:-2] + "c" + x.t[-1]
                return i
            yield p.ftype + (":<>" if ln.lex[-1].t.startswith("<") else ':""'), ap


@op("P05", "INCLUDE_START_FILE", ("c",))
def P05(p):
    incs = [i for i, ln in enumerate(p.lines) if ln.kind == "include"]
    if incs and p.funcs:
        f = p.funcs[0]
        # move the last include after the first function
        def ap(q, i=incs[-1], close=f["close"]):
            inc = q.lines[i]
            q.lines.insert(close + 1, Line([], "blank", 0, -1))
            q.lines.insert(close + 2, inc)
            del q.lines[i]
            if len(incs) == 1 and q.lines[i].kind == "blank":
                del q.lines[i]
                return close
            return close + 1
        yield "after-function", ap


@op("P06", "PREPROC_NO_SPACE")
def P06(p):
    for i, ln in enumerate(p.lines):
        if ln.kind in ("include",):
            # (for define/ifndef the glued text is another, unknown, directive name: fatal by design, not this rule)
            for k, x in enumerate(ln.lex):
                if x.k == "pp" and k + 1 < len(ln.lex) and ln.lex[k + 1].k == "sp":
                    if not ln.lex[k + 2].t.startswith(("<", '"')):
                        continue

                    def ap(q, i=i, k=k):
                        del q.lines[i].lex[k + 1]
                        return i
                    yield ln.kind, ap


@op("P07", ("TOO_MANY_WS", "PREPROC_BAD_INDENT"))
def P07(p):
    for i, ln in enumerate(p.lines):
        if ln.kind in ("include", "define", "ifndef", "endif", "ppelse") and "ppdepth" in ln.info:
            def ap(q, i=i):
                q.lines[i].lex.insert(1, SP())
                return i
            yield "%s:depth%d" % (ln.kind, ln.info["ppdepth"]), ap


@op("P08", "PREPROC_BAD_INDENT", ("h",))
def P08(p):
    for i, ln in enumerate(p.lines):
        if ln.kind in ("include", "define", "ifndef", "endif", "ppelse") and ln.info.get("ppdepth", 0) >= 1:
            def ap(q, i=i):
                del q.lines[i].lex[1]
                return i
            yield "%s:depth%d" % (ln.kind, ln.info["ppdepth"]), ap


@op("P09", "PREPROC_START_LINE")
def P09(p):
    for i, ln in enumerate(p.lines):
        if ln.kind in ("include", "define"):
            def ap(q, i=i):
                q.lines[i].lex.insert(0, SP())
                return i
            yield ln.kind, ap


@op("P10", "PREPOC_ONLY_GLOBAL", ("c",))
def P10(p):
    for i, ln in _simple_stmt_lines(p):
        def ap(q, i=i):
            q.lines.insert(i, Line([Lx("#", "hash"), Lx("define", "pp"), SP(), Lx("ZZ_X", "id"), SP(), Lx("1", "num")], "define", 0, q.lines[i].fn))
            return i
        yield "stmt@%d" % min(ln.depth, 3), ap


@op("P11", "TAB_REPLACE_SPACE")
def P11(p):
    for i, ln in enumerate(p.lines):
        if ln.kind in ("include", "define"):
            for k, x in enumerate(ln.lex):
                if x.k == "pp" and k + 1 < len(ln.lex) and ln.lex[k + 1].k == "sp":
                    def ap(q, i=i, k=k):
                        q.lines[i].lex[k + 1] = Lx("\t", "tab")
                        return i
                    yield ln.kind + ":after-name", ap
            if ln.info.get("ppdepth", 0) >= 1 and ln.lex[1].k == "sp":
                def ap2(q, i=i):
                    q.lines[i].lex[1] = Lx("\t", "tab")
                    return i
                yield ln.kind + ":after-hash", ap2


@op("P12", "CONSECUTIVE_WS")
def P12(p):
    for i, ln in enumerate(p.lines):
        if ln.kind in ("include", "define"):
            for k, x in enumerate(ln.lex):
                if x.k == "pp" and k + 1 < len(ln.lex) and ln.lex[k + 1].k == "sp":
                    def ap(q, i=i, k=k):
                        q.lines[i].lex.insert(k + 1, SP())
                        return i
                    yield ln.kind, ap


@op("P13", ("PREPROC_BAD_IFNDEF", "PREPROC_BAD_IF", "PREPROC_BAD_IFDEF"), ("h",))
def P13(p):
    opens = [i for i, ln in enumerate(p.lines) if ln.kind == "ifndef" and not ln.info.get("guard")]
    for i in opens:
        j = i + 1
        while j < len(p.lines) and p.lines[j].kind != "endif":
            j += 1
        if j < len(p.lines):
            def ap(q, i=i, j=j):
                del q.lines[j]
                g = [n for n, x in enumerate(q.lines) if x.kind == "ifndef" and x.info.get("guard")]
                return g[0] if g else i   # the opener left without its #endif is the outermost one
            yield "inner-ifndef", ap


@op("P14", ("PREPROC_BAD_ENDIF", "PREPROC_BAD_ELSE", "PREPROC_BAD_ELIF"), ("c",))
def P14(p):
    for i, ln in enumerate(p.lines):
        if ln.kind in ("include", "define") and ln.info.get("ppdepth") == 0:
            for word in ("endif", "else", "elif"):
                def ap(q, i=i, word=word):
                    q.lines.insert(i + 1, Line([Lx("#", "hash"), Lx(word, "pp")] + ([SP(), Lx("ZZ_A", "id")] if word == "elif" else []), "endif", 0, -1))
                    return i + 1
                yield word, ap
            break


# ---------------------------------------------------------------------------------------------
# types


def _type_block(kind, tname="zz"):
    kw = {"struct": "struct", "union": "union", "enum": "enum"}.get(kind, "struct")
    pre = {"struct": "s_", "union": "u_", "enum": "e_"}[kw]
    out = [Line([Lx(kw, "kw"), SP(), Lx(pre + tname, "id")], "utype_open", 0, -1),
           Line([Lx("{", "brace")], "lbrace", 0, -1)]
    if kw == "enum":
        out.append(Line(TABS(1) + [Lx("ZZ_A", "id")], "enumerator", 1, -1))
    else:
        out.append(Line(TABS(1) + [Lx("int", "kw"), Lx("\t", "tab"), Lx("a", "id"), Lx(";", "semi")], "member", 1, -1))
    out.append(Line([Lx("}", "brace"), Lx(";", "semi")], "utype_close", 0, -1))
    return out


@op("T01", "FORBIDDEN_STRUCT", ("c",))
def T01(p):
    yield from _insert_type(p, "struct")


@op("T03", "FORBIDDEN_ENUM", ("c",))
def T03(p):
    yield from _insert_type(p, "enum")


@op("T04", "FORBIDDEN_UNION", ("c",))
def T04(p):
    yield from _insert_type(p, "union")


def _insert_type(p, kind):
    if p.funcs:
        h = p.funcs[0]["head"]
        while h >= 1 and p.lines[h - 1].kind == "comment":
            h -= 1
        if h >= 1 and p.lines[h - 1].kind == "blank":
            def ap(q, h=h):
                q.lines[h:h] = _type_block(kind) + [Line([], "blank", 0, -1)]
                return h
            yield "before-first-function", ap


@op("T03b", ("FORBIDDEN_ENUM", "FORBIDDEN_STRUCT", "BRACE_NEWLINE"), ("c",), aux=True)
def T03b(p):
    # two violations at once (a type in a .c file, its brace on the keyword line), between two functions
    for n, f in enumerate(p.funcs[1:], start=1):
        h = f["head"]
        while h >= 1 and p.lines[h - 1].kind == "comment":
            h -= 1
        if h >= 1 and p.lines[h - 1].kind == "blank":
            for kind in ("enum", "struct"):
                def ap(q, h=h, kind=kind):
                    blk = _type_block(kind)
                    blk[0].lex += [SP(), Lx("{", "brace")]
                    del blk[1]
                    q.lines[h:h] = blk + [Line([], "blank", 0, -1)]
                    return h
                yield kind, ap


@op("T02", "FORBIDDEN_TYPEDEF", ("c",))
def T02(p):
    if p.funcs:
        h = p.funcs[0]["head"]
        while h >= 1 and p.lines[h - 1].kind == "comment":
            h -= 1
        if h >= 1 and p.lines[h - 1].kind == "blank":
            def ap(q, h=h):
                q.lines[h:h] = [Line([Lx("typedef", "kw"), SP(), Lx("int", "kw"), Lx("\t", "tab"), Lx("t_zz", "id"), Lx(";", "semi")], "typedef", 0, -1),
                                Line([], "blank", 0, -1)]
                return h
            yield "before-first-function", ap


@op("T05", "TYPE_NOT_GLOBAL", ("c",))
def T05(p):
    for f in p.funcs:
        i = f["open"] + 1

        def ap(q, i=i, fn=f["fn"]):
            blk = _type_block("struct")
            for b in blk:
                b.lex = TABS(1) + b.lex
                b.depth += 1
                b.fn = fn
            q.lines[i:i] = blk
            return i
        yield "top-of-body", ap
        break


@op("T06", "STRUCT_TYPE_NAMING", ("h",))
def T06(p):
    yield from _untag(p, "struct")


@op("T07", "UNION_TYPE_NAMING", ("h",))
def T07(p):
    yield from _untag(p, "union")


@op("T08", "ENUM_TYPE_NAMING", ("h",))
def T08(p):
    yield from _untag(p, "enum")


def _untag(p, kw):
    for i, ln in enumerate(p.lines):
        if ln.kind == "utype_open" and ln.info.get("kw") == kw:
            for k, x in enumerate(ln.lex):
                if "tag-name" in x.tags:
                    def ap(q, i=i, k=k):
                        q.lines[i].lex[k].t = "x" + q.lines[i].lex[k].t[2:]
                        return i
                    if not ln.info.get("typedef"):   # the prefix of a typedef'd tag is not enforced by the tool (DESIGN §4.2)
                        yield "plain", ap


@op("T09", "USER_DEFINED_TYPEDEF", ("h",))
def T09(p):
    for i, ln in enumerate(p.lines):
        if ln.kind in ("typedef", "utype_close"):
            for k, x in enumerate(ln.lex):
                if "typedef-name" in x.tags:
                    def ap(q, i=i, k=k):
                        q.lines[i].lex[k].t = "x" + q.lines[i].lex[k].t[2:]
                        return i
                    yield ln.kind, ap


@op("T12", "FORBIDDEN_CHAR_NAME", ("h",))
def T12(p):
    """an upper-case letter in a typedef name (plain, pointer, array and function-pointer aliases, struct/union/enum typedefs)"""
    for i, ln in enumerate(p.lines):
        if ln.kind in ("typedef", "utype_close"):
            for k, x in enumerate(ln.lex):
                if "typedef-name" in x.tags and len(x.t) > 2 and x.t[2].islower():
                    def ap(q, i=i, k=k):
                        t = q.lines[i].lex[k].t
                        q.lines[i].lex[k].t = t[:2] + t[2].upper() + t[3:]
                        return i
                    form = "close" if ln.kind == "utype_close" else "fptr" if any(y.t == "(" for y in ln.lex) else "array" if any(y.t == "[" for y in ln.lex) else \
                        "ptr" if any("ptr-decl" in y.tags for y in ln.lex) else "plain"
                    if form == "fptr" and any(y.k in ("id", "type") and j > k for j, y in enumerate(ln.lex)):
                        form = "fptr:identifier-in-parameter-types"     # the name check looks at the last identifier of the statement
                    yield ln.kind + ":" + form, ap


@op("T10", "NO_TAB_BF_TYPEDEF", ("h",))
def T10(p):
    for i, ln in enumerate(p.lines):
        if ln.kind == "utype_close" and ln.info.get("typedef"):
            def ap(q, i=i):
                q.lines[i].lex = [x for x in q.lines[i].lex if "typedef-tab" not in x.tags]
                return i
            yield "close", ap


@op("T11", "SPACE_REPLACE_TAB", ("h",))
def T11(p):
    for i, ln in enumerate(p.lines):
        if ln.kind == "typedef":
            al = [k for k, x in enumerate(ln.lex) if "align" in x.tags]
            if al:
                def ap(q, i=i, al=al):
                    q.lines[i].lex[al[0]:al[-1] + 1] = [SP()]
                    return i
                yield "alias", ap


# ---------------------------------------------------------------------------------------------
# file level


@op("X01", "LINE_TOO_LONG")
def X01(p):
    for i, ln in enumerate(p.lines):
        if ln.kind in ("stmt", "decl", "global", "proto", "funchead", "member"):
            for k, x in enumerate(ln.lex):
                if x.k == "id" and ("decl-name" in x.tags or "func-name" in x.tags or "callee" in x.tags):
                    w = vwidth(ln.text)

                    def ap(q, i=i, k=k, w=w):
                        q.lines[i].lex[k].t += "z" * (81 - w)
                        return i
                    yield ln.kind, ap
                    break


def applicable(p, aux=False):
    return [o for o in OPS.values() if p.ftype in o["ftypes"] and (aux or not o.get("aux"))]


@op("S10", "MULT_IN_SINGLE_INSTR", ("c",))
def S10(p):
    # the single-instruction body of a brace-less control structure gets a nested control structure WITH braces
    for i, ln in _ctrl_lines(p):
        if i + 1 < len(p.lines) and ln.info.get("kw") in ("if", "while"):
            nx = p.lines[i + 1]
            if nx.kind == "stmt" and nx.depth == ln.depth + 1 and nx.info.get("stmt") in ("assign", "call", "incdec") \
                    and not (i + 2 < len(p.lines) and p.lines[i + 2].kind in ("cont", "else")):
                j = i + 2
                if j < len(p.lines) and p.lines[j].kind == "ctrl" and p.lines[j].info.get("kw") == "else if":
                    continue

                def ap(q, i=i):
                    d = q.lines[i + 1].depth
                    fn = q.lines[i].fn
                    body = q.lines[i + 1]
                    body.lex = [Lx("\t", "tab")] + body.lex
                    body.depth += 1
                    q.lines[i + 1:i + 1] = [Line(TABS(d) + [Lx("while", "kw"), SP(), Lx("(", "par"), Lx("zz", "id"), Lx(")", "par")], "ctrl", d, fn),
                                            Line(TABS(d) + [Lx("{", "brace")], "lbrace", d, fn)]
                    q.lines.insert(i + 4, Line(TABS(d) + [Lx("}", "brace")], "rbrace", d, fn))
                    return i + 2
                yield "%s@%d" % (ln.info.get("kw"), min(ln.depth, 3)), ap


@op("X02", "INVALID_HEADER")
def X02(p):
    from . import header42
    if p.lines and p.lines[0].kind == "hdr":
        for mid in ("H1", "H4", "H6.6", "H7a", "H8"):
            def ap(q, mid=mid):
                new = header42.mutate([ln.text for ln in q.lines[:11]], mid)
                if mid == "H1":
                    del q.lines[:12]   # the header and the empty line after it
                else:
                    q.lines[:11] = [Line([Lx(t, "cmt")], "hdr", 0, -1) for t in new]
                return -1   # reported where the header check gives up (the first statement of the file): any line

            yield mid, ap


@op("X03", ("HEADER_PROT_NAME", "HEADER_PROT_UPPER", "HEADER_PROT_NODEF"), ("h",))
def X03(p):
    for i, ln in enumerate(p.lines):
        if ln.kind == "ifndef" and ln.info.get("guard"):
            def ap(q, i=i):
                for j in (i, i + 1):
                    for x in q.lines[j].lex:
                        if "guard" in x.tags:
                            x.t = "ZZ_" + x.t
                return i
            yield "other-symbol", ap


@op("O12", ("SPC_BFR_OPERATOR", "SPC_AFTER_OPERATOR"), ("c",), aux=True)
def O12(p):
    # a binary + or - right after a parenthesised lone identifier: "(a) - 1" -> "(a)- 1" / "(a) -1" / "(a)-1".
    # "(a)-1" cannot be told from a cast of -1 to the type a without a symbol table: not in the C02 catalogue.
    for i, ln in enumerate(p.lines):
        if ln.kind in ("stmt", "ctrl", "cont") and ln.fn >= 0:
            for k in _binop_positions(ln, tags=("binop",), ambiguous=True):
                if ln.lex[k].t in ("+", "-") and k >= 2 and "paren-ident-close" in ln.lex[k - 2].tags:
                    for which in ("before", "after", "both"):
                        def ap(q, i=i, k=k, which=which):
                            if which in ("after", "both"):
                                del q.lines[i].lex[k + 1]
                            if which in ("before", "both"):
                                del q.lines[i].lex[k - 1]
                            return i
                        yield "after-paren-ident:" + which, ap


@op("F13", "MISSING_TAB_FUNC", ("c",))
def F13(p):
    for i, ln in enumerate(p.lines):
        if ln.kind == "funchead":
            for k, x in enumerate(ln.lex):
                if "func-tab" in x.tags:
                    if "ptr-func" in ln.lex[k + 1].tags:
                        def ap(q, i=i, k=k):
                            del q.lines[i].lex[k]          # char*ft_x(void)
                            return i
                        yield "pointer-glued", ap

                    def ap2(q, i=i, k=k):
                        lex = q.lines[i].lex
                        q.lines[i].lex = lex[:k]           # the return type alone on its line
                        q.lines.insert(i + 1, Line(lex[k + 1:], "cont", 0, q.lines[i].fn))
                        return i
                    yield "name-on-next-line", ap2


@op("K04", ("COMMENT_ON_INSTR", "PREPROC_CONSTANT", "TOO_MANY_VALS"), aux=True)
def K04(p):
    # a comment between two tokens of a directive (legal C; the tool's answer varies and may be fatal): family member only
    for i, ln in enumerate(p.lines):
        if ln.kind in ("include", "define", "ifndef") and not ln.info.get("guard"):
            for k in range(1, len(ln.lex)):
                if ln.lex[k].k != "sp" and ln.lex[k - 1].k == "sp":
                    def ap(q, i=i, k=k):
                        q.lines[i].lex[k:k] = [Lx("/* limit */" if (i + k) % 2 else "/* LIMIT */", "cmt"), SP()]
                        return i
                    yield ln.kind, ap


@op("P02b", "MACRO_FUNC_FORBIDDEN")
def P02b(p):
    # a function-like macro whose body stringifies / pastes its parameter
    for i, ln in enumerate(p.lines):
        if ln.kind == "define" and not ln.info.get("guard") and ln.info.get("value") in ("num", "neg", "chr", "none", "macro"):
            for k, x in enumerate(ln.lex):
                if "macro-def" in x.tags:
                    for body in ("stringify", "paste"):
                        def ap(q, i=i, k=k, body=body):
                            lex = q.lines[i].lex
                            del lex[k + 1:]
                            lex += [Lx("(", "par"), Lx("arg", "id"), Lx(")", "par"), SP()]
                            lex += [Lx("#", "hash"), Lx("arg", "id")] if body == "stringify" else [Lx("arg", "id"), Lx("##", "op"), Lx("_t", "id")]
                            return i
                        yield p.ftype + ":" + body, ap


@op("X01c", "LINE_TOO_LONG")
def X01c(p):
    # a file-level comment line made 81..84 columns wide
    for i, ln in enumerate(p.lines):
        if ln.kind == "comment" and ln.fn < 0 and len(ln.lex) == 1:
            t = ln.lex[0].t
            if t.startswith("//") or (t.startswith("/*") and t.endswith("*/")) or t.startswith("**"):
                def ap(q, i=i):
                    x = q.lines[i].lex[0]
                    w = vwidth(x.t)
                    pad = "x" * (82 - w)
                    x.t = x.t[:-2] + pad + "*/" if x.t.endswith("*/") else x.t + pad
                    return i
                yield "block" if t.startswith("/*") else "interior" if t.startswith("**") else "line", ap
