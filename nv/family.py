"""The 'conforming and violating families': a generated conforming program, optionally with one
violation operator of the catalogue applied at a generated site."""
from . import operators, prog
from .draw import composite


def member_of(d, violating=0.6, ftype=None, opts=None, prefer=(), only=None):
    if ftype is None:
        ftype = "h" if d.bool(0.3) else "c"
    p = prog.gen_h(d, opts) if ftype == "h" else prog.gen_c(d, opts)
    p.variant = None
    if d.bool(violating):
        ops = operators.applicable(p, aux=bool(only))
        ops += [o for o in operators.applicable(p, aux=True) if o.get("aux") and o["id"] in prefer and o not in ops]
        if only:
            ops = [o for o in ops if o["id"] in only] or operators.applicable(p)
        pref = [o for o in ops if o["id"] in prefer]
        for _ in range(4):
            o = d.choice(pref) if pref and d.bool(0.4) else d.choice(ops)
            sites = list(o["fn"](p))
            if not sites:
                continue
            cls, ap = sites[d.int(0, len(sites) - 1)]
            q = p.copy()
            li = ap(q)
            if li is None:
                continue
            q.variant = (o["id"], cls, li)
            q.header_fields = p.header_fields
            if opts and opts.get("decorate"):
                prog.decorate(q, d, skip=(li,))
            return q
    if opts and opts.get("decorate"):
        prog.decorate(p, d)
    return p


@composite
def member(d, violating=0.6, ftype=None):
    return member_of(d, violating, ftype)


def diag_list(r):
    """comparison form: status + fatal/crash class + diagnostics in report order"""
    return {"status": r.status, "fatal": r.fatal, "crash": r.crash[:2] if r.crash else None, "diags": [list(x) for x in r.diags]}
