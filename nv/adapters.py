"""How the code under test is run: in-process API, forked CLI, real CLI (DESIGN §3.1)."""
import contextlib
import io
import json
import os
import re
import shutil
import subprocess
import sys
import tempfile
import traceback

from .core import REPO, HarnessError

if REPO not in sys.path:
    sys.path.insert(0, REPO)


def _imports():
    from norminette.file import File
    from norminette.lexer import Lexer
    from norminette.context import Context
    from norminette.registry import Registry
    from norminette.exceptions import CParsingError
    return File, Lexer, Context, Registry, CParsingError


class Result:
    __slots__ = ("status", "diags", "fatal", "crash", "stdout", "errors", "ntokens", "tokens")

    def __init__(self):
        self.status = None      # "OK" | "Error" | "FATAL" | "CRASH"
        self.diags = []         # [(level, code, line, col)] in report order
        self.fatal = None       # message of the controlled fatal error
        self.crash = None       # (exc type name, innermost norminette frame "file:func", outermost rule file, text)
        self.stdout = ""
        self.errors = None
        self.ntokens = 0
        self.tokens = None

    @property
    def codes(self):
        return [d[1] for d in self.diags]

    def has_error(self):
        return any(d[0] == "Error" for d in self.diags)

    def short(self):
        return {"status": self.status, "diags": self.diags, "fatal": self.fatal,
                "crash": list(self.crash[:3]) if self.crash else None}


def crash_signature(exc):
    """(type, innermost norminette frame, outermost rules/ frame)."""
    tb = traceback.extract_tb(exc.__traceback__)
    inner = None
    outer_rule = None
    for fr in tb:
        fn = fr.filename.replace("\\", "/")
        if "/norminette/" in fn:
            short = fn.split("/norminette/", 1)[1]
            inner = "%s:%s" % (short, fr.name)
            if short.startswith("rules/") and outer_rule is None:
                outer_rule = short[len("rules/"):]
    return (type(exc).__name__, inner or "?", outer_rule or "-", str(exc)[:160])


def normal_form(errors):
    out = []
    for e in errors:
        h = e.highlights[0] if e.highlights else None
        out.append((e.level, e.name, h.lineno if h else None, h.column if h else None))
    return out


class _Watchdog(BaseException):
    pass


_armed = {"on": False}


def _on_alarm(sig, frm):
    if _armed["on"]:
        raise _Watchdog()


WATCHDOG_S = 20
WATCHDOG_AFTER_S = 2      # once a process has seen HANGS_BEFORE_SHORT hangs the tree is already in violation: later spins are cut short
HANGS_BEFORE_SHORT = 3
_hangs = {"n": 0}


def _watchdog_s():
    return WATCHDOG_S if _hangs["n"] < HANGS_BEFORE_SHORT else WATCHDOG_AFTER_S


class LexerHang(Exception):
    pass


def lex(name, text):
    """Tokenizer alone.  Returns (tokens, file).  Exceptions propagate; a spin is turned into LexerHang by a watchdog."""
    import signal
    from . import core as _core
    _core.note_current(name, text)
    File, Lexer, _, _, _ = _imports()
    f = File(name, text)
    try:
        old_handler = signal.signal(signal.SIGALRM, _on_alarm)
        _armed["on"] = True
        signal.setitimer(signal.ITIMER_REAL, _watchdog_s(), 1.0)
    except (ValueError, OSError):
        return list(Lexer(f)), f
    try:
        toks = list(Lexer(f))
    except _Watchdog:
        _armed["on"] = False
        _hangs["n"] += 1
        raise LexerHang("tokenizer gave no answer within %d s" % WATCHDOG_S)
    finally:
        _armed["on"] = False
        signal.setitimer(signal.ITIMER_REAL, 0)
        signal.signal(signal.SIGALRM, old_handler)
    return toks, f




def analyse(name, text, debug=0, R=None, registry=None, keep_tokens=False, from_disk=False):
    """One file through lexer + registry.  A wall-clock watchdog keeps a worker alive if the code under test spins
    (whether that is a property violation is C05's business, decided there by a step count): the result is then a CRASH
    with the pseudo exception type 'Hang'."""
    import signal
    from . import core as _core
    _core.note_current(name, text)
    File, Lexer, Context, Registry, CParsingError = _imports()
    r = Result()
    buf = io.StringIO()
    f = File(name, None if from_disk else text)   # from_disk: `name` is a real path and the tool reads it itself
    use_alarm = False
    try:
        old_handler = signal.signal(signal.SIGALRM, _on_alarm)
        _armed["on"] = True
        signal.setitimer(signal.ITIMER_REAL, _watchdog_s(), 1.0)     # re-fires every second until the exception gets out
        use_alarm = True
    except (ValueError, OSError):
        pass   # not in the main thread: no watchdog
    try:
        try:
            _analyse_inner(r, buf, f, name, text, debug, R, registry, keep_tokens, Lexer, Context, Registry, CParsingError)
        except _Watchdog:
            _armed["on"] = False
            _hangs["n"] += 1
            r.status = "CRASH"
            r.crash = ("Hang", "watchdog", "-", "no answer within %d s" % WATCHDOG_S)
    finally:
        _armed["on"] = False
        if use_alarm:
            signal.setitimer(signal.ITIMER_REAL, 0)
            signal.signal(signal.SIGALRM, old_handler)
    r.stdout = buf.getvalue()
    r.errors = f.errors
    try:
        r.diags = normal_form(f.errors)
    except Exception as e:  # sorting may itself fail
        r.status = "CRASH"
        r.crash = crash_signature(e)
    return r


def _analyse_inner(r, buf, f, name, text, debug, R, registry, keep_tokens, Lexer, Context, Registry, CParsingError):
    try:
        with contextlib.redirect_stdout(buf):
            toks = list(Lexer(f))
            r.ntokens = len(toks)
            if keep_tokens:
                r.tokens = list(toks)
            ctx = Context(f, toks, debug, R)
            (registry or Registry()).run(ctx)
        r.status = f.errors.status
    except CParsingError as e:
        r.status = "FATAL"
        r.fatal = e.msg
    except RecursionError as e:
        r.status = "CRASH"
        r.crash = ("RecursionError", "?", "-", "")
    except Exception as e:  # noqa: classified, not swallowed
        r.status = "CRASH"
        r.crash = crash_signature(e)


# ---------------------------------------------------------------------------------------------
# CLI

VERDICT_RE = re.compile(r"^(.+): (OK|Error)!$")
DIAG_RE = re.compile(r"^(Error|Notice): (\S+)\s+\(line:\s*(\d+), col:\s*(\d+)\):\t(.*)$")
ANSI_RE = re.compile(r"\x1b\[[0-9;]*m")


def parse_humanized(out):
    """→ list of files: {"name", "verdict", "diags": [(level, code, line, col, text)], "fatal": msg|None}; plus other lines."""
    files, other = [], []
    lines = ANSI_RE.sub("", out).split("\n")
    i = 0
    while i < len(lines):
        ln = lines[i]
        m = VERDICT_RE.match(ln)
        if m:
            cur = {"name": m.group(1), "verdict": m.group(2), "diags": [], "fatal": None}
            if m.group(2) == "Error" and i + 1 < len(lines) and lines[i + 1].startswith("\t"):
                cur["fatal"] = lines[i + 1].strip()
                i += 1
            files.append(cur)
        else:
            d = DIAG_RE.match(ln)
            if d and files:
                files[-1]["diags"].append((d.group(1), d.group(2), int(d.group(3)), int(d.group(4)), d.group(5)))
            elif ln != "":
                other.append(ln)
        i += 1
    return files, other


class CliResult:
    __slots__ = ("code", "out", "err")

    def __init__(self, code, out, err):
        self.code, self.out, self.err = code, out, err

    @property
    def traceback(self):
        return "Traceback (most recent call last)" in self.err or "Traceback (most recent call last)" in self.out


def real_cli(argv, cwd, timeout=120, env_extra=None):
    env = dict(os.environ)
    env["PYTHONPATH"] = REPO + os.pathsep + env.get("PYTHONPATH", "")
    env["PYTHONDONTWRITEBYTECODE"] = "1"
    if env_extra:
        env.update(env_extra)
    try:
        p = subprocess.run([sys.executable, "-m", "norminette"] + list(argv), cwd=cwd, capture_output=True,
                           timeout=timeout, env=env)
    except subprocess.TimeoutExpired:
        return CliResult(-9, "", "TIMEOUT")
    return CliResult(p.returncode, p.stdout.decode("utf-8", "replace"), p.stderr.decode("utf-8", "replace"))


def forked_cli(argv, cwd, timeout=120):
    """Run norminette.__main__.main() in a forked child of this (already-imported) process."""
    import norminette.__main__ as nm  # imported in the parent once
    r_out, w_out = os.pipe()
    r_err, w_err = os.pipe()
    pid = os.fork()
    if pid == 0:  # child
        code = 0
        try:
            os.close(r_out)
            os.close(r_err)
            os.dup2(w_out, 1)
            os.dup2(w_err, 2)
            sys.stdout = io.TextIOWrapper(os.fdopen(1, "wb", closefd=False), encoding="utf-8", errors="surrogateescape", write_through=True)
            sys.stderr = io.TextIOWrapper(os.fdopen(2, "wb", closefd=False), encoding="utf-8", errors="surrogateescape", write_through=True)
            os.chdir(cwd)
            sys.argv = ["norminette"] + list(argv)
            try:
                nm.main()
            except SystemExit as e:
                c = e.code
                if c is None:
                    code = 0
                elif isinstance(c, int):
                    code = c
                else:
                    sys.stderr.write(str(c) + "\n")
                    code = 1
            except BaseException:
                traceback.print_exc()
                code = 1
            try:
                sys.stdout.flush()
                sys.stderr.flush()
            except Exception:
                pass
        finally:
            os._exit(code & 0xFF)
    os.close(w_out)
    os.close(w_err)
    import selectors
    sel = selectors.DefaultSelector()
    sel.register(r_out, selectors.EVENT_READ, "o")
    sel.register(r_err, selectors.EVENT_READ, "e")
    bufs = {"o": [], "e": []}
    import time
    deadline = time.time() + timeout
    open_fds = 2
    timed_out = False
    while open_fds:
        left = deadline - time.time()
        if left <= 0:
            timed_out = True
            break
        for key, _ in sel.select(left):
            data = os.read(key.fd, 65536)
            if not data:
                sel.unregister(key.fd)
                open_fds -= 1
            else:
                bufs[key.data].append(data)
    if timed_out:
        os.kill(pid, 9)
    _, st = os.waitpid(pid, 0)
    os.close(r_out)
    os.close(r_err)
    if timed_out:
        return CliResult(-9, b"".join(bufs["o"]).decode("utf-8", "replace"), "TIMEOUT")
    code = os.waitstatus_to_exitcode(st)
    return CliResult(code, b"".join(bufs["o"]).decode("utf-8", "replace"), b"".join(bufs["e"]).decode("utf-8", "replace"))


@contextlib.contextmanager
def scratch(prefix="nv-"):
    d = tempfile.mkdtemp(prefix=prefix)
    try:
        yield d
    finally:
        shutil.rmtree(d, ignore_errors=True)


def write_tree(root, files):
    """files: {relative path: str|bytes}."""
    for rel, content in files.items():
        p = os.path.join(root, rel)
        os.makedirs(os.path.dirname(p), exist_ok=True)
        mode = "wb" if isinstance(content, bytes) else "w"
        with open(p, mode) as f:
            f.write(content)
