"""The 42 stdheader template (DESIGN §4.13) and its structural mutations."""

FRAME = "/* " + "*" * 74 + " */"
EMPTY = "/*" + " " * 76 + "*/"
L3 = "/*                                                        :::      ::::::::   */"
L5 = "/*                                                    +:+ +:+         +:+     */"
L7 = "/*                                                +#+#+#+#+#+   +#+           */"


def render(f):
    """f: dict(file, login, mail, created, updated, cby, uby) -> 11 lines of 80 columns"""
    l4 = "/*   %-51s:+:      :+:    :+:   */" % f["file"]
    l6 = "/*   By: %-43s+#+  +:+       +#+        */" % ("%s <%s>" % (f["login"], f["mail"]))
    l8 = "/*   Created: %s by %-18s#+#    #+#             */" % (f["created"], f["cby"])
    l9 = "/*   Updated: %s by %-17s###   ########.fr       */" % (f["updated"], f["uby"])
    return [FRAME, EMPTY, L3, l4, L5, l6, L7, l8, l9, EMPTY, FRAME]


def _login(d):
    s = d.choice("abcdefghijklmnopqrstuvwxyz")
    for _ in range(d.int(0, 7)):
        s += d.choice("abcdefghijklmnopqrstuvwxyz0123456789-")
    return s.rstrip("-") or "a"


def _stamp(d):
    return "%04d/%02d/%02d %02d:%02d:%02d" % (d.int(1970, 2099), d.int(1, 12), d.int(1, 31), d.int(0, 23), d.int(0, 59), d.int(0, 59))


def fields(d, filename=None):
    login = _login(d)
    k = d.int(0, 3)
    if k == 0:
        mail = "%s@student.42.fr" % login
    elif k == 1:
        mail = "%s@student.%s.%s" % (login, d.choice(["42lyon", "42tokyo", "1337", "42sp", "codam", "hive"]), d.choice(["fr", "jp", "ma", "org.br", "nl", "fi"]))
    elif k == 2:
        mail = "marvin@42.fr"
    else:
        mail = "".join(d.choice("abcdefghijklmnopqrstuvwxyz0123456789._-") for _ in range(d.int(1, 8))) + "@" + \
            "".join(d.choice("abcdefghijklmnopqrstuvwxyz0123456789.-") for _ in range(d.int(1, 10)))
    while len(login) + len(mail) + 3 > 43:
        mail = mail[1:]
    if filename is None or d.bool(0.2):
        filename = "".join(d.choice("abcdefghijklmnopqrstuvwxyz0123456789_.") for _ in range(d.int(1, 30))) + d.choice([".c", ".h"])
    return {
        "file": filename[:51], "login": login, "mail": mail, "created": _stamp(d), "updated": _stamp(d),
        "cby": login if d.bool(0.7) else _login(d), "uby": login if d.bool(0.7) else _login(d),
    }


DEFAULT = {"file": "test.c", "login": "marvin", "mail": "marvin@42.fr", "created": "2020/01/01 00:00:00", "updated": "2020/01/01 00:00:00",
           "cby": "marvin", "uby": "marvin"}

MUTATIONS = (["H1", "H2", "H3a", "H3b", "H3c", "H3d", "H3e", "H3f", "H3g", "H3h", "H3i", "H3j", "H4", "H5"] + ["H6.%d" % k for k in range(1, 12)] +
             ["H7a", "H7b", "H7c", "H7d", "H8", "H9", "H10", "H11a", "H11b", "H11c"])


def mutate(lines, mid, body_first_line="int\tft_x(void);"):
    """lines: the 11 header lines.  Returns the list of lines that replaces them (the blank line
    and the body that follow are left to the caller), or None if not applicable."""
    L = list(lines)
    if mid == "H1":
        return []
    if mid == "H2":
        return [""] + L
    if mid == "H3a":
        return ["#include <unistd.h>", ""] + L
    if mid == "H3b":
        return [body_first_line, ""] + L
    if mid in ("H3c", "H3d", "H3e", "H3f", "H3g"):
        first = {"H3c": "DECLARE_LIST(g_list);", "H3d": "_Static_assert(sizeof(int) == 4, \"int\");", "H3e": "int\tg_before;",
                 "H3f": "typedef int\tt_before;", "H3g": "ft_setup(1, 2);"}[mid]
        return [first, ""] + L
    if mid in ("H3h", "H3i", "H3j"):   # the same, with the header glued directly under the line of code
        first = {"H3h": "DECLARE_LIST(g_list);", "H3i": "int\tg_before;", "H3j": "#include <unistd.h>"}[mid]
        return [first] + L
    if mid == "H4":
        return ["//" + x[2:-2] for x in L]
    if mid == "H5":
        return [L[0][:-2] + "  "] + ["  " + x[2:-2] + "  " for x in L[1:-1]] + ["  " + L[-1][2:]]
    if mid.startswith("H6."):
        k = int(mid[3:])
        return L[:k - 1] + L[k:]
    if mid == "H7a":
        return ["/* " + "*" * 73 + " */"] + L[1:]
    if mid == "H7b":
        return ["/* " + "*" * 75 + " */"] + L[1:]
    if mid == "H7c":
        return L[:-1] + ["/* " + "*" * 73 + " */"]
    if mid == "H7d":
        return L[:-1] + ["/* " + "*" * 75 + " */"]
    if mid == "H8":
        return L[:5] + [EMPTY] + L[6:]
    if mid == "H9":
        return L[:7] + [EMPTY] + L[8:]
    if mid == "H10":
        return L[:8] + [EMPTY] + L[9:]
    if mid == "H11a":
        return L[:5] + [L[5].replace("By:", "   ", 1)] + L[6:]
    if mid == "H11b":
        return L[:7] + [L[7].replace("Created:", "        ", 1)] + L[8:]
    if mid == "H11c":
        return L[:8] + [L[8].replace("Updated:", "        ", 1)] + L[9:]
    raise KeyError(mid)
