"""Textual context of a diagnostic: classes of the lexemes around a (line, column), computed from
the text alone with a small regular-expression tokenizer of our own (so replay files need only text)."""
import re

TOK = re.compile(r"""
    (?P<ws>[ \t]+)
  | (?P<cmt>//.*|/\*.*?(?:\*/|$))
  | (?P<str>(?:u8|[LuU])?"(?:\\.|[^"\\])*"?)
  | (?P<chr>(?:u8|[LuU])?'(?:\\.|[^'\\])*'?)
  | (?P<num>\.?[0-9](?:[eEpP][+-]|[0-9a-zA-Z_.])*)
  | (?P<id>[A-Za-z_][A-Za-z0-9_]*)
  | (?P<op>>>=|<<=|\.\.\.|->|\+\+|--|<<|>>|<=|>=|==|!=|&&|\|\||[-+*/%&|^]=|[-+*/%<>=!~&|^?:;,.#(){}\[\]\\])
  | (?P<other>.)
""", re.VERBOSE)

KEYWORDS = set("auto break case char const continue default do double else enum extern float for goto if int long "
               "register return short signed sizeof static struct switch typedef union unsigned void volatile while "
               "inline NULL restrict".split())


def vcol(line, idx):
    col = 1
    for ch in line[:idx]:
        if ch == "\t":
            col += 4 - (col - 1) % 4
        else:
            col += 1
    return col


def classify(kind, text):
    if kind == "id":
        if text in KEYWORDS:
            return text
        if text.isupper():
            return "MACRO"
        return "id"
    if kind == "num":
        t = text.lower()
        if t.startswith("0x"):
            return "hex"
        if t.startswith("0b"):
            return "bin"
        if "." in t or ("e" in t and not t.startswith("0x")):
            return "flt"
        return "num"
    if kind in ("str", "chr", "cmt"):
        return kind
    if kind == "ws":
        return "TAB" if "\t" in text else "SP"
    return text


def line_tokens(line):
    """[(vcol, kind, text)]"""
    out = []
    for m in TOK.finditer(line):
        out.append((vcol(line, m.start()), m.lastgroup, m.group()))
    return out


def diag_context(text, lineno, col, before=2, after=1, keep_ws=False):
    lines = text.split("\n")
    if not (1 <= lineno <= len(lines)):
        return "line-out-of-range"
    toks = line_tokens(lines[lineno - 1])
    if not keep_ws:
        sig = [(c, k, t) for c, k, t in toks if k != "ws"]
    else:
        sig = toks
    if not sig:
        return "empty-line"
    idx = None
    for i, (c, k, t) in enumerate(sig):
        if c <= col:
            idx = i
    if idx is None:
        idx = 0
    parts = []
    for j in range(idx - before, idx + after + 1):
        if j < 0:
            parts.append("^")
        elif j >= len(sig):
            parts.append("$")
        else:
            parts.append(classify(sig[j][1], sig[j][2]))
    return " ".join(parts)


TYPES = {"int", "char", "long", "short", "float", "double", "void", "unsigned", "signed", "const", "struct", "union", "enum", "static"}
KEEP = {"&&", "||", "!", "(", ")", "[", "]", "{", "}", ",", ";", "sizeof", "NULL", "chr", "str", "cmt", "return", "if", "while", "else",
        "^", "$", "#", "->", ".", "?", ":", "++", "--", "break", "continue", "typedef", "for", "do", "switch", "case", "goto", "TAB", "SP"}
BIN = {"*", "/", "%", "<<", ">>", "<", ">", "<=", ">=", "==", "!=", "&", "^", "|", "=", "+=", "-=", "*=", "/=", "%=", "<<=", ">>=", "&=", "^=", "|="}


def norm_class(c, keep_num=False):
    if c in KEEP:
        return c
    if c in TYPES:
        return "T"
    if c in ("+", "-", "~"):
        return "U"
    if c in BIN:
        return "B"
    if c in ("num", "hex", "bin", "flt"):
        return c if keep_num else "x"
    if c in ("id", "MACRO"):
        return "x"
    return c


def root_key(code, text, lineno, col):
    """Root-cause signature of a diagnostic: its code + normalised classes of (previous, this, next) lexeme."""
    raw = diag_context(text, lineno, col, before=1, after=1)
    if raw in ("line-out-of-range", "empty-line"):
        return "%s|%s" % (code, raw)
    keep_num = code.startswith(("INVALID_", "BAD_", "MULTIPLE_", "MAXIMAL"))
    parts = raw.split(" ")
    if len(parts) == 3 and parts[0] == "^" and parts[1] in ("*", "&", "+", "-"):
        # operator first on a continuation line
        return "%s|^ %s %s" % (code, parts[1], norm_class(parts[2], keep_num))
    return "%s|%s" % (code, " ".join(norm_class(p, keep_num) for p in parts))
