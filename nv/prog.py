"""Conforming-program model, printer and generator (DESIGN §3.2, §4.1).

A program is a list of Lines; a Line is a list of lexemes (Lx) plus its kind, scope depth, owning
function and logical-statement id.  Everything the other properties need (sites for edit operators,
identifier classes, comment/literal spans, top-level gaps, measures) is read off this structure.
"""
import copy

from . import header42, literals

KEYWORDS = set("auto break case char const continue default do double else enum extern float for goto if int long "
               "register return short signed sizeof static struct switch typedef union unsigned void volatile while "
               "inline NULL restrict".split())
SPECIAL_NAMES = {"defined", "environ", "__attribute__", "main"}
BINOPS = ["*", "/", "%", "+", "-", "<<", ">>", "<", ">", "<=", ">=", "==", "!=", "&", "^", "|", "&&", "||"]
ASGOPS = ["=", "+=", "-=", "*=", "/=", "%=", "<<=", ">>=", "&=", "^=", "|="]
UNOPS = ["-", "+", "!", "~"]


class Lx:
    __slots__ = ("t", "k", "tags")

    def __init__(self, t, k, tags=()):
        self.t = t          # text
        self.k = k          # kind: id kw type num str chr op un par br brace comma semi sp tab hash pp cmt inc
        self.tags = tags    # tuple of strings

    def __repr__(self):
        return "Lx(%r,%s%s)" % (self.t, self.k, "," + "/".join(self.tags) if self.tags else "")

    def copy(self):
        return Lx(self.t, self.k, self.tags)


def SP():
    return Lx(" ", "sp")


def TABS(n):
    return [Lx("\t", "tab") for _ in range(n)]


class Line:
    __slots__ = ("lex", "kind", "depth", "fn", "sid", "info")

    def __init__(self, lex, kind, depth=0, fn=-1, sid=-1, info=None):
        self.lex = lex
        self.kind = kind
        self.depth = depth
        self.fn = fn
        self.sid = sid
        self.info = info or {}

    @property
    def text(self):
        return "".join(x.t for x in self.lex)

    def copy(self):
        return Line([x.copy() for x in self.lex], self.kind, self.depth, self.fn, self.sid, dict(self.info))


def vwidth(s, start=0):
    col = start
    for ch in s:
        if ch == "\t":
            col += 4 - col % 4
        else:
            col += 1
    return col


class Program:
    def __init__(self, name, ftype):
        self.name = name           # base name with suffix
        self.ftype = ftype         # "c" | "h"
        self.lines = []
        self.idents = {}           # name -> class (var fn glob tag_s tag_u tag_e tdef macro member)
        self.funcs = []            # dicts: name, head (line idx), open, close, nparams, ndecls
        self.tags = set()          # construct tags present
        self.header_fields = None

    @property
    def text(self):
        return "".join(ln.text + "\n" for ln in self.lines)

    def copy(self):
        p = Program(self.name, self.ftype)
        p.lines = [ln.copy() for ln in self.lines]
        p.idents = dict(self.idents)
        p.funcs = copy.deepcopy(self.funcs)
        p.tags = set(self.tags)
        p.header_fields = self.header_fields
        return p

    def reindex(self):
        """Recompute function line indices from line kinds (after an edit that inserts/removes lines)."""
        funcs = []
        cur = None
        for i, ln in enumerate(self.lines):
            if ln.kind == "funchead":
                cur = {"head": i, "fn": ln.fn}
            elif ln.kind == "lbrace" and ln.depth == 0 and cur is not None and "open" not in cur:
                cur["open"] = i
            elif ln.kind == "rbrace" and ln.depth == 0 and cur is not None and "open" in cur:
                cur["close"] = i
                funcs.append(cur)
                cur = None
        by_fn = {f.get("fn"): f for f in self.funcs}
        for f in funcs:
            old = by_fn.get(f["fn"], {})
            for k in ("name", "nparams", "ndecls"):
                if k in old:
                    f[k] = old[k]
        self.funcs = funcs


# ---------------------------------------------------------------------------------------------
# generator


DEFAULT_AVOID = frozenset(["fptr-typedef-ret", "cast-paren-mult", "typedef-cast-tilde", "global-fptr-no-init"])


class Env:
    """Names visible in a function: kind -> [names]."""

    def __init__(self):
        self.ints = []
        self.ptrs = []       # pointers to arithmetic types (indexable, dereferenceable)
        self.structs = []    # (name, [members])
        self.sptrs = []      # (name, [members])
        self.fptrs = []

    def any_lvalues(self):
        return bool(self.ints or self.ptrs or self.structs or self.sptrs)


class Gen:
    def __init__(self, d, ftype="c", opts=None):
        self.d = d
        self.ftype = ftype
        self.opts = opts or {}
        self.used = set()
        self.prog = None
        self.macros = []
        self.funcs_known = []   # (name, nargs)
        self.globals_seen = []  # array-typed globals (for sizeof(g) / sizeof(g[0]))
        self.tdefs = []         # typedef names usable as types (assumed to come from an included header)
        self.stags = []
        self.sid = 0
        self.max_depth = self.opts.get("max_depth", 3)
        # constructs that are confirmed open findings (known_findings.json) are not emitted by default,
        # so that the search continues behind them; each exclusion is counted (tag "excluded:<construct>")
        self.avoid = self.opts.get("avoid", DEFAULT_AVOID)

    # -- names ---------------------------------------------------------------------------------
    def fresh(self, cls, prefix="", lo=1, hi=7, upper=False):
        d = self.d
        for _ in range(50):
            n = d.int(lo, hi)
            first = "abcdefghijklmnopqrstuvwxyz"
            rest = "abcdefghijklmnopqrstuvwxyz0123456789_"
            if upper:
                first, rest = first.upper(), rest.upper()
            s = d.choice(first)
            for _ in range(n - 1):
                s += d.choice(rest)
            if cls == "var" and not prefix and d.bool(0.08):
                s = s.rstrip("_") + "_t"      # names shaped like standard typedef names are ordinary identifiers too
            s = prefix + s
            if s in KEYWORDS or s in SPECIAL_NAMES or s in self.used or s.endswith("_"):
                continue
            if not prefix and (s[:2] in ("g_", "s_", "t_", "u_", "e_") or s.startswith("ft_")):
                continue
            self.used.add(s)
            self.prog.idents[s] = cls
            return s
        k = len(self.used)
        s = prefix + ("V%d" % k if upper else "v%d" % k)
        self.used.add(s)
        self.prog.idents[s] = cls
        return s

    def tag(self, *tags):
        self.prog.tags.update(tags)

    # -- types ---------------------------------------------------------------------------------
    ARITH = ["int", "char", "long", "short", "unsigned int", "unsigned char", "unsigned long", "long long",
             "float", "double", "size_t", "unsigned long long", "signed char", "ssize_t"]

    def type_lex(self, text):
        """type text -> lexemes (words separated by single spaces)"""
        out = []
        for i, w in enumerate(text.split(" ")):
            if i:
                out.append(SP())
            out.append(Lx(w, "kw" if w in KEYWORDS else "type"))
        return out

    def arith_type(self):
        return self.d.weighted([(6, "int"), (3, "char"), (2, "long"), (1, "short"), (2, "unsigned int"), (1, "unsigned char"),
                                (1, "unsigned long"), (1, "long long"), (1, "float"), (1, "double"), (2, "size_t"),
                                (1, "unsigned long long"), (1, "ssize_t")])

    # -- constants -------------------------------------------------------------------------------
    def constant(self, small=False):
        d = self.d
        if small or d.bool(0.55):
            t = str(d.int(0, 9) if d.bool(0.7) else d.int(10, 4096))
            return [Lx(t, "num", ("const:dec",))]
        fam, t = literals.valid_numeric(d)
        self.tag("const:" + fam)
        return [Lx(t, "num", ("const:" + fam,))]

    def char_const(self):
        t = literals.valid_char(self.d)
        self.tag("const:char")
        return [Lx(t, "chr")]

    def string_const(self, maxlen=12):
        t = literals.valid_string(self.d, maxlen)
        self.tag("const:string")
        return [Lx(t, "str")]

    # -- expressions -----------------------------------------------------------------------------
    def width(self, lex):
        return sum(len(x.t) for x in lex)

    def atom(self, env, depth, allow_call=True):
        d = self.d
        choices = [(5, "const")]
        if env.ints:
            choices.append((10, "var"))
        if env.ptrs:
            choices += [(3, "index"), (2, "deref")]
        if env.structs:
            choices.append((2, "member"))
        if env.sptrs:
            choices.append((2, "arrow"))
        if self.macros:
            choices.append((2, "macro"))
        choices.append((1, "char"))
        if depth > 0:
            choices += [(3, "paren"), (2, "unary"), (2, "cast"), (1, "sizeof")]
            if allow_call:
                choices.append((3, "call"))
            if env.any_lvalues():
                choices.append((1, "addr-cmp"))
        k = d.weighted(choices)
        if k == "const":
            return self.constant()
        if k == "var":
            return [Lx(d.choice(env.ints), "id")]
        if k == "macro":
            return [Lx(d.choice(self.macros), "id", ("macro",))]
        if k == "char":
            return self.char_const()
        if k == "index":
            self.tag("index")
            return [Lx(d.choice(env.ptrs), "id"), Lx("[", "br")] + self.expr(env, depth - 1, 20, top=False) + [Lx("]", "br")]
        if k == "deref":
            self.tag("unary:*")
            return [Lx("*", "un", ("unary:*",)), Lx(d.choice(env.ptrs), "id")]
        if k == "member":
            self.tag("member:.")
            n, mem = d.choice(env.structs)
            return [Lx(n, "id"), Lx(".", "op", ("member",)), Lx(d.choice(mem), "id", ("member-name",))]
        if k == "arrow":
            self.tag("member:->")
            n, mem = d.choice(env.sptrs)
            return [Lx(n, "id"), Lx("->", "op", ("member",)), Lx(d.choice(mem), "id", ("member-name",))]
        if k == "paren":
            self.tag("paren")
            if env.ints and d.bool(0.5):
                self.tag("paren:lone-identifier")
                return [Lx("(", "par", ("paren-ident-open",)), Lx(d.choice(env.ints), "id"), Lx(")", "par", ("paren-ident-close",))]
            return [Lx("(", "par")] + self.expr(env, depth - 1, 40, top=False) + [Lx(")", "par")]
        if k == "unary":
            op = d.choice(UNOPS)
            self.tag("unary:" + op)
            operand = self.unary_operand(env, depth - 1)
            if op in "+-" and operand[0].t.startswith(op):
                op = "~"   # "- -x" written without a space would be the decrement operator
            return [Lx(op, "un", ("unary:" + op,))] + operand
        if k == "cast":
            ty = d.choice(["int", "char", "long", "unsigned int", "unsigned char", "size_t", "double", "float", "short"])
            self.tag("cast")
            operand = self.cast_operand(ty, self.unary_operand(env, depth - 1, for_cast=True))
            return [Lx("(", "par", ("cast-open",))] + self.type_lex(ty) + [Lx(")", "par", ("cast-close",))] + operand
        if k == "sizeof":
            self.tag("sizeof")
            if d.bool() or not env.ints:
                inner = self.type_lex(d.choice(["int", "char", "long", "char *", "void *", "unsigned int", "size_t"]).__str__()) \
                    if False else self.sizeof_type()
            else:
                inner = [Lx(d.choice(env.ints), "id")]
            return [Lx("sizeof", "kw"), Lx("(", "par")] + inner + [Lx(")", "par")]
        if k == "call":
            return self.call(env, depth - 1)
        if k == "addr-cmp":
            # pointer comparison against NULL: (p == NULL) style atom
            if env.ptrs:
                self.tag("null-compare")
                lhs = [Lx(d.choice(env.ptrs), "id")] if d.bool(0.8) else self.pointer_cast(env, 0, allow_call=False)
                if self.width(lhs) > 24:
                    lhs = [Lx(d.choice(env.ptrs), "id")]
                return [Lx("(", "par")] + lhs + [SP(), Lx(d.choice(["==", "!="]), "op", ("binop",)), SP(),
                                                  Lx("NULL", "kw"), Lx(")", "par")]
            return self.constant(True)
        raise AssertionError(k)

    def cast_operand(self, ty, operand):
        """A cast to a typedef name in front of + - * & cannot be told from a binary operator without a
        symbol table: outside the conforming grammar (DESIGN §4.1).  In front of ~ it is unambiguous, but
        rejected by the tool: open finding, excluded by default."""
        if ty.split(" ")[-1] in KEYWORDS:
            return operand
        first = operand[0]
        if first.k == "un" and first.t in "+-*&":
            operand[0] = Lx("!", "un", ("unary:!",))
            self.tag("outside-grammar:typedef-cast-sign")
        elif first.k == "un" and first.t == "~" and "typedef-cast-tilde" in self.avoid:
            operand[0] = Lx("!", "un", ("unary:!",))
            self.tag("excluded:typedef-cast-tilde")
        return operand

    def sizeof_type(self):
        d = self.d
        ty = d.choice(["int", "char", "long", "unsigned int", "size_t", "double"] + self.tdefs[:2])
        lex = self.type_lex(ty)
        if d.bool(0.3):
            lex += [SP(), Lx("*", "op", ("ptr-in-type",))]
        return lex

    def unary_operand(self, env, depth, for_cast=False):
        """Operand of a unary operator / cast: primary, another unary, parenthesised expr, cast, sizeof."""
        d = self.d
        choices = [(6, "simple"), (2, "paren")]
        if depth > 0:
            choices += [(1, "unary"), (1, "cast"), (1, "sizeof"), (2, "call")]
        if for_cast:
            choices += [(1, "char"), (1, "const")]
        k = d.weighted(choices)
        if k == "simple":
            if env.ints and d.bool(0.8):
                return [Lx(d.choice(env.ints), "id")]
            if env.ptrs and d.bool():
                return [Lx(d.choice(env.ptrs), "id"), Lx("[", "br")] + self.constant(True) + [Lx("]", "br")]
            return self.constant(True)
        if k == "const":
            return self.constant()
        if k == "char":
            return self.char_const()
        if k == "paren":
            return [Lx("(", "par")] + self.expr(env, max(depth - 1, 0), 30, top=False) + [Lx(")", "par")]
        if k == "unary":
            op = d.choice(UNOPS)
            self.tag("unary:" + op)
            inner = self.unary_operand(env, depth - 1)
            if op in "+-" and inner[0].t.startswith(op):
                op = "!"
            return [Lx(op, "un", ("unary:" + op, "nested-unary"))] + inner
        if k == "cast":
            self.tag("cast")
            ty = d.choice(["int", "char", "long", "unsigned int", "size_t"])
            return [Lx("(", "par", ("cast-open",))] + self.type_lex(ty) + [Lx(")", "par", ("cast-close",))] + \
                self.cast_operand(ty, self.unary_operand(env, depth - 1, True))
        if k == "sizeof":
            self.tag("sizeof")
            return [Lx("sizeof", "kw"), Lx("(", "par")] + self.sizeof_type() + [Lx(")", "par")]
        if k == "call":
            return self.call(env, depth - 1)
        raise AssertionError(k)

    def callee(self):
        d = self.d
        if self.funcs_known and d.bool(0.6):
            return d.choice(self.funcs_known)
        name = self.fresh("fn", prefix=d.choice(["ft_", "", ""]), lo=2, hi=8)
        f = (name, d.int(0, 3))
        self.funcs_known.append(f)
        return f

    def pointer_cast(self, env, depth, allow_call=True):
        """(T *)operand — a pointer value: used only where a pointer may stand (argument, comparison with NULL, whole right-hand side)"""
        d = self.d
        # (T *)operand with keyword, struct/union-tag and typedef-name types; the '*' inside the parentheses makes it unambiguous
        kinds = [(4, "kw"), (2, "struct"), (1, "union"), (2, "tdef")]
        tk = d.weighted(kinds)
        if tk == "kw":
            ty = d.choice(["char", "void", "int", "unsigned char", "const char", "long"])
        elif tk == "struct":
            ty = d.choice(["", "const "]) + "struct " + (d.choice(self.stags) if self.stags and d.bool() else "s_" + d.choice(["list", "node", "x", "data"]))
        elif tk == "union":
            ty = "union u_" + d.choice(["val", "x", "num"])
        else:
            if not self.tdefs or d.bool(0.3):
                self.tdefs.append(self.fresh("tdef", prefix="t_", lo=2, hi=6))
            ty = d.choice(self.tdefs)
        stars = d.weighted([(6, 1), (1, 2)])
        ok = d.weighted([(4, "ptr"), (3, "addr"), (1, "null"), (1, "zero"), (1, "deref"), (1, "neg"), (1, "call")])
        if ok == "ptr" and env.ptrs:
            operand = [Lx(d.choice(env.ptrs), "id")]
        elif ok == "addr" and (env.ints or env.structs):
            operand = [Lx("&", "un", ("unary:&",)), Lx(d.choice(env.ints) if env.ints else env.structs[0][0], "id")]
        elif ok == "deref" and env.ptrs:
            operand = [Lx("*", "un", ("unary:*",)), Lx(d.choice(env.ptrs), "id")]
        elif ok == "neg":
            operand = [Lx("-", "un", ("unary:-",)), Lx("1", "num", ("const:dec",))]
        elif ok == "call" and allow_call:
            operand = self.call(env, depth - 1)
        elif ok == "zero":
            operand = [Lx("0", "num", ("const:dec",))]
        else:
            operand = [Lx("NULL", "kw")]
        self.tag("cast:pointer", "cast:pointer:" + tk)
        return [Lx("(", "par", ("cast-open",))] + self.type_lex(ty) + [SP()] + [Lx("*", "op", ("ptr-in-type",)) for _ in range(stars)] + [Lx(")", "par", ("cast-close",))] + operand

    def arg(self, env, depth):
        d = self.d
        k = d.weighted([(8, "expr"), (2, "str"), (1, "null"), (1, "addr"), (2, "ptrcast")])
        if k == "ptrcast":
            pc = self.pointer_cast(env, depth, allow_call=False)
            if self.width(pc) <= 26:
                return pc
        if k == "str":
            return self.string_const()
        if k == "null":
            return [Lx("NULL", "kw")]
        if k == "addr" and env.ints:
            self.tag("unary:&")
            return [Lx("&", "un", ("unary:&",)), Lx(d.choice(env.ints), "id")]
        return self.expr(env, depth, 24, top=False)

    def call(self, env, depth):
        name, nargs = self.callee()
        self.tag("call")
        lex = [Lx(name, "id", ("callee",)), Lx("(", "par", ("call-open",))]
        for i in range(nargs):
            if i:
                lex += [Lx(",", "comma"), SP()]
            lex += self.arg(env, max(depth, 0))
        lex.append(Lx(")", "par", ("call-close",)))
        return lex

    def expr(self, env, depth, budget, top=True, ops=None):
        """arithmetic expression of width <= budget (falls back to a short atom)"""
        d = self.d
        for attempt in range(4):
            dep = max(0, depth - attempt)
            n = d.weighted([(5, 1), (4, 2), (2, 3)]) if dep > 0 else d.weighted([(3, 1), (1, 2)])
            lex = self.atom(env, dep)
            for _ in range(n - 1):
                op = d.choice(ops or BINOPS)
                if "paren-ident-close" in lex[-1].tags and d.bool(0.6):
                    op = d.choice(["+", "-"])
                self.tag("binop:" + op)
                lex += [SP(), Lx(op, "op", ("binop", "binop:" + op)), SP()] + self.atom(env, dep)
            if self.width(lex) <= budget:
                return self.post_expr(lex)
        if env.ints:
            v = [Lx(d.choice(env.ints), "id")]
            if self.width(v) <= budget:
                return v
        return [Lx(str(d.int(0, 9)), "num", ("const:dec",))]

    def post_expr(self, lex):
        if "cast-paren-mult" not in self.avoid:
            return lex
        sig = [i for i, x in enumerate(lex) if x.k != "sp"]
        for n, i in enumerate(sig):
            x = lex[i]
            if x.t == "*" and "binop" in x.tags and n > 0 and lex[sig[n - 1]].t == ")":
                # find the matching "(" and look at what precedes it
                depth = 0
                m = n - 1
                while m >= 0:
                    t = lex[sig[m]]
                    if t.t == ")":
                        depth += 1
                    elif t.t == "(":
                        depth -= 1
                        if depth == 0:
                            break
                    m -= 1
                if m > 0 and "cast-close" in lex[sig[m - 1]].tags:
                    lex[i] = Lx("/", "op", ("binop", "binop:/"))
                    self.tag("excluded:cast-paren-mult")
                elif m >= 0 and (self._group_starts_with_cast(lex, sig, m) or any("ptr-in-type" in lex[sig[j]].tags for j in range(m, n))):
                    # ((T *)x …) * y, (… sizeof(T *) …) * y : the group begins with a cast or holds a pointer type — same misreading
                    # (finding C01|construct:ptrcast-group-mult)
                    lex[i] = Lx("/", "op", ("binop", "binop:/"))
                    self.tag("excluded:ptrcast-group-mult")
        return lex

    @staticmethod
    def _group_starts_with_cast(lex, sig, m):
        # ( ( … (T *)x …  : the group opening at sig[m], possibly behind further opening parentheses, begins with a cast
        k = m + 1
        while k < len(sig) and lex[sig[k]].t == "(" and "cast-open" not in lex[sig[k]].tags:
            k += 1
        return k < len(sig) and "cast-open" in lex[sig[k]].tags

    def cond(self, env, depth, budget):
        d = self.d
        ops = ["<", ">", "<=", ">=", "==", "!=", "&&", "||", "&", "+", "-", "*", "%"]
        return self.expr(env, depth, budget, ops=ops)

    # -- statements ------------------------------------------------------------------------------
    def lvalue(self, env):
        d = self.d
        choices = []
        if env.ints:
            choices.append((8, "var"))
        if env.ptrs:
            choices += [(3, "index"), (2, "deref")]
        if env.structs:
            choices.append((2, "member"))
        if env.sptrs:
            choices.append((2, "arrow"))
        k = d.weighted(choices)
        if k == "var":
            return [Lx(d.choice(env.ints), "id")]
        if k == "index":
            return [Lx(d.choice(env.ptrs), "id"), Lx("[", "br")] + self.expr(env, 1, 12, top=False) + [Lx("]", "br")]
        if k == "deref":
            return [Lx("*", "un", ("unary:*", "stmt-start")), Lx(d.choice(env.ptrs), "id")]
        if k == "member":
            n, mem = d.choice(env.structs)
            return [Lx(n, "id"), Lx(".", "op", ("member",)), Lx(d.choice(mem), "id", ("member-name",))]
        n, mem = d.choice(env.sptrs)
        return [Lx(n, "id"), Lx("->", "op", ("member",)), Lx(d.choice(mem), "id", ("member-name",))]

    def emit(self, lex, kind, depth, fn, sid=None, info=None):
        if sid is None:
            self.sid += 1
            sid = self.sid
        ln = Line(lex, kind, depth, fn, sid, info)
        self.prog.lines.append(ln)
        return ln

    def simple_stmt(self, env, depth, fn, in_loop, returns_value):
        """one simple statement; returns number of lines emitted"""
        d = self.d
        ind = TABS(depth)
        budget = 78 - 4 * depth
        choices = [(3, "call"), (1, "void-cast")]
        if env.any_lvalues():
            choices += [(8, "assign"), (2, "incdec"), (2, "long-assign"), (1, "assign-str")]
        choices += [(2, "long-call")]
        choices.append((2, "return"))
        if in_loop:
            choices += [(1, "break"), (1, "continue")]
        k = d.weighted(choices)
        if k == "assign":
            lv = self.lvalue(env)
            op = d.weighted([(10, "=")] + [(1, o) for o in ASGOPS[1:]])
            self.tag("asg:" + op)
            rhs_budget = budget - self.width(lv) - len(op) - 3
            rhs = self.expr(env, self.max_depth, rhs_budget)
            self.emit(ind + lv + [SP(), Lx(op, "op", ("asgop",)), SP()] + rhs + [Lx(";", "semi")], "stmt", depth, fn, info={"stmt": "assign"})
            return 1
        if k == "assign-str" and env.ptrs:
            lv = [Lx(d.choice(env.ptrs), "id")]
            rhs = d.choice([self.string_const(), [Lx("NULL", "kw")]])
            self.emit(ind + lv + [SP(), Lx("=", "op", ("asgop",)), SP()] + rhs + [Lx(";", "semi")], "stmt", depth, fn, info={"stmt": "assign"})
            return 1
        if k == "incdec" and (env.ints or env.ptrs):
            op = d.choice(["++", "--"])
            v = [Lx(d.choice(env.ints or env.ptrs), "id")]
            self.tag("incdec")
            lex = v + [Lx(op, "op", ("postfix",))] if d.bool(0.8) else [Lx(op, "op", ("prefix",))] + v
            self.emit(ind + lex + [Lx(";", "semi")], "stmt", depth, fn, info={"stmt": "incdec"})
            return 1
        if k == "void-cast":
            self.tag("void-cast")
            if env.ints and d.bool():
                body = [Lx(d.choice(env.ints), "id")]
            else:
                body = self.call(env, 1)
            if self.width(body) > budget - 8:
                body = [Lx(d.choice(env.ints), "id")] if env.ints else self.constant(True)
            self.emit(ind + [Lx("(", "par", ("cast-open",)), Lx("void", "kw"), Lx(")", "par", ("cast-close",))] + body + [Lx(";", "semi")],
                      "stmt", depth, fn, info={"stmt": "voidcast"})
            return 1
        if k == "return":
            if returns_value:
                e = self.expr(env, self.max_depth, budget - 11)
                self.tag("return-value")
                self.emit(ind + [Lx("return", "kw"), SP(), Lx("(", "par", ("return-open",))] + e + [Lx(")", "par", ("return-close",)), Lx(";", "semi")],
                          "stmt", depth, fn, info={"stmt": "return"})
            else:
                self.tag("return-void")
                self.emit(ind + [Lx("return", "kw"), SP(), Lx(";", "semi")], "stmt", depth, fn, info={"stmt": "return-void"})
            return 1
        if k == "break":
            self.tag("break")
            self.emit(ind + [Lx("break", "kw"), SP(), Lx(";", "semi")], "stmt", depth, fn, info={"stmt": "break"})
            return 1
        if k == "continue":
            self.tag("continue")
            self.emit(ind + [Lx("continue", "kw"), SP(), Lx(";", "semi")], "stmt", depth, fn, info={"stmt": "continue"})
            return 1
        if k == "long-assign" and env.any_lvalues():
            return self.long_assign(env, depth, fn)
        if k == "long-call":
            return self.long_call(env, depth, fn)
        # call
        c = self.call(env, 2)
        if self.width(c) > budget - 1:
            name, _ = self.callee()
            c = [Lx(name, "id", ("callee",)), Lx("(", "par", ("call-open",)), Lx(")", "par", ("call-close",))]
        self.emit(ind + c + [Lx(";", "semi")], "stmt", depth, fn, info={"stmt": "call"})
        return 1

    def long_assign(self, env, depth, fn):
        """K2: assignment whose right-hand side is cut before a binary operator."""
        d = self.d
        lv = [Lx(d.choice(env.ints), "id")] if env.ints else self.lvalue(env)
        terms = [self.expr(env, 1, 30, top=False) for _ in range(d.int(2, 4))]
        cut_ops = ["+", "-", "|", "&", "^"] if "cast-paren-mult" in self.avoid else ["+", "-", "*", "|", "&", "^"]
        ops = [d.choice(cut_ops) for _ in terms[1:]]
        ind = TABS(depth)
        first = ind + lv + [SP(), Lx("=", "op", ("asgop",)), SP()] + terms[0]
        lines = [first]
        cut_done = False
        for op, t in zip(ops, terms[1:]):
            piece = [Lx(op, "op", ("binop", "binop:" + op)), SP()] + t
            cur = lines[-1]
            if not cut_done or vwidth("".join(x.t for x in cur)) + 1 + self.width(piece) + 1 > 78:
                # operator first on the continuation line, indented depth + 1 (assignment)
                lines.append(TABS(depth + 1) + piece)
                cut_done = True
            else:
                lines[-1] = cur + [SP()] + piece
        lines[-1] = lines[-1] + [Lx(";", "semi")]
        self.sid += 1
        sid = self.sid
        self.tag("K2")
        for i, lex in enumerate(lines):
            self.emit(lex, "stmt" if i == 0 else "cont", depth, fn, sid, info={"stmt": "assign", "K": "K2"})
        return len(lines)

    def long_call(self, env, depth, fn):
        """K3: call arguments cut after a comma."""
        d = self.d
        name, _ = self.callee()
        nargs = d.int(2, 4)
        args = [self.arg(env, 1) for _ in range(nargs)]
        ind = TABS(depth)
        head = ind + [Lx(name, "id", ("callee",)), Lx("(", "par", ("call-open",))]
        lines = [head + args[0]]
        cut_done = False
        for a in args[1:]:
            cur = lines[-1]
            if not cut_done or vwidth("".join(x.t for x in cur)) + 2 + self.width(a) + 2 > 78:
                lines[-1] = cur + [Lx(",", "comma")]
                lines.append(TABS(depth + 1) + a)   # one parenthesis open at the cut
                cut_done = True
            else:
                lines[-1] = cur + [Lx(",", "comma"), SP()] + a
        lines[-1] = lines[-1] + [Lx(")", "par", ("call-close",)), Lx(";", "semi")]
        self.sid += 1
        sid = self.sid
        self.tag("K3")
        for i, lex in enumerate(lines):
            self.emit(lex, "stmt" if i == 0 else "cont", depth, fn, sid, info={"stmt": "call", "K": "K3"})
        return len(lines)

    def control_line(self, kw, env, depth, fn, allow_long=True):
        """if/while/else if line(s); returns number of lines"""
        d = self.d
        ind = TABS(depth)
        head = ind + ([Lx("else", "kw"), SP(), Lx("if", "kw")] if kw == "else if" else [Lx(kw, "kw")]) + [SP(), Lx("(", "par", ("ctrl-open",))]
        self.tag("ctrl:" + kw)
        if allow_long and d.bool(0.15):
            # K1: condition cut before && / ||
            clauses = [self.cond(env, 1, 34) for _ in range(d.int(2, 3))]
            ops = [d.choice(["&&", "||"]) for _ in clauses[1:]]
            lines = [head + self.wrap_clause(clauses[0])]
            for op, c in zip(ops, clauses[1:]):
                lines.append(TABS(depth + 1) + [Lx(op, "op", ("binop", "binop:" + op)), SP()] + self.wrap_clause(c))
            lines[-1] = lines[-1] + [Lx(")", "par", ("ctrl-close",))]
            self.sid += 1
            sid = self.sid
            self.tag("K1")
            for i, lex in enumerate(lines):
                self.emit(lex, "ctrl" if i == 0 else "cont", depth, fn, sid, info={"kw": kw, "K": "K1"})
            return len(lines)
        c = self.cond(env, self.max_depth, 74 - 4 * depth - len(kw) - 3)
        self.emit(head + c + [Lx(")", "par", ("ctrl-close",))], "ctrl", depth, fn, info={"kw": kw})
        return 1

    def wrap_clause(self, c):
        # a clause that itself contains && / || at top level is parenthesised, to keep precedence explicit
        if any(x.k == "op" and x.t in ("&&", "||") for x in c):
            return [Lx("(", "par")] + c + [Lx(")", "par")]
        return c

    def body_single(self, env, depth, fn, in_loop, rv, left, nest):
        """body of a brace-less control structure: one simple line, or a nested brace-less if/while"""
        d = self.d
        if nest > 0 and left >= 3 and d.bool(0.25):
            kw = d.choice(["if", "while"])
            self.tag("braceless-nest")
            n = self.control_line(kw, env, depth, fn, allow_long=False)
            n += self.body_single(env, depth + 1, fn, in_loop or kw == "while", rv, left - n, nest - 1)
            return n
        return self.simple_stmt_short(env, depth, fn, in_loop, rv)

    def simple_stmt_short(self, env, depth, fn, in_loop, rv):
        """a simple statement guaranteed to be one line"""
        start = len(self.prog.lines)
        sid0 = self.sid
        n = self.simple_stmt(env, depth, fn, in_loop, rv)
        if n > 1:
            del self.prog.lines[start:]
            self.sid = sid0
            v = self.lvalue(env) if env.any_lvalues() else None
            if v is not None:
                self.emit(TABS(depth) + v + [SP(), Lx("=", "op", ("asgop",)), SP()] + self.constant(True) + [Lx(";", "semi")], "stmt", depth, fn,
                          info={"stmt": "assign"})
            else:
                name, _ = self.callee()
                self.emit(TABS(depth) + [Lx(name, "id", ("callee",)), Lx("(", "par", ("call-open",)), Lx(")", "par", ("call-close",)), Lx(";", "semi")],
                          "stmt", depth, fn, info={"stmt": "call"})
        return 1

    def block(self, env, depth, fn, in_loop, rv, left, level):
        """{ stmts } ; returns lines used (including braces)"""
        self.emit(TABS(depth) + [Lx("{", "brace")], "lbrace", depth, fn)
        n = 2
        inner = max(1, min(left - 2, self.d.int(1, 4)))
        n += self.stmts(env, depth + 1, fn, in_loop, rv, inner, level + 1, at_least_one=True)
        self.emit(TABS(depth) + [Lx("}", "brace")], "rbrace", depth, fn)
        return n

    def stmts(self, env, depth, fn, in_loop, rv, left, level, at_least_one=False):
        """statement list using at most `left` lines; returns lines used"""
        d = self.d
        used = 0
        first = True
        while left - used >= 1:
            if not first and not d.bool(0.8):
                break
            if first and not at_least_one and not d.bool(0.9):
                break
            first = False
            room = left - used
            choices = [(10, "simple")]
            if room >= 2 and level < self.max_depth:
                choices += [(3, "if"), (2, "while")]
            k = d.weighted(choices)
            if k == "simple":
                start = len(self.prog.lines)
                sid0 = self.sid
                n = self.simple_stmt(env, depth, fn, in_loop, rv)
                if n > room:
                    del self.prog.lines[start:]
                    self.sid = sid0
                    n = self.simple_stmt_short(env, depth, fn, in_loop, rv)
                used += n
            elif k == "while":
                used += self.ctrl(env, depth, fn, "while", True, rv, room, level)
            else:
                used += self.if_chain(env, depth, fn, in_loop, rv, room, level)
        return used

    def ctrl(self, env, depth, fn, kw, in_loop, rv, room, level):
        d = self.d
        n = self.control_line(kw, env, depth, fn, allow_long=room >= 5)
        left = room - n
        if kw == "while" and left >= 1 and d.bool(0.15):
            self.tag("while-empty")
            self.emit(TABS(depth + 1) + [Lx(";", "semi")], "stmt", depth + 1, fn, info={"stmt": "empty"})
            return n + 1
        if left >= 3 and d.bool(0.55):
            self.tag("braced-body")
            return n + self.block(env, depth, fn, in_loop, rv, left, level)
        self.tag("braceless-body")
        return n + self.body_single(env, depth + 1, fn, in_loop, rv, left, nest=1 if left >= 3 else 0)

    def if_chain(self, env, depth, fn, in_loop, rv, room, level):
        d = self.d
        used = self.ctrl(env, depth, fn, "if", in_loop, rv, room, level)
        while room - used >= 2 and d.bool(0.3):
            used += self.ctrl(env, depth, fn, "else if", in_loop, rv, room - used, level)
        if room - used >= 2 and d.bool(0.4):
            self.tag("else")
            self.emit(TABS(depth) + [Lx("else", "kw")], "else", depth, fn, info={"kw": "else"})
            left = room - used - 1
            if left >= 3 and d.bool(0.5):
                used += 1 + self.block(env, depth, fn, in_loop, rv, left, level)
            else:
                used += 1 + self.simple_stmt_short(env, depth + 1, fn, in_loop, rv)
        return used

    # -- declarations ----------------------------------------------------------------------------
    def decl_specs(self, env, n):
        """draw n local declarations: (type text, declarator lexemes, registers names in env)"""
        d = self.d
        out = []
        for _ in range(n):
            k = d.weighted([(8, "int"), (4, "ptr"), (2, "array"), (1, "struct"), (2, "sptr"), (1, "fptr"), (1, "static"), (1, "const")])
            if k == "int":
                name = self.fresh("var")
                env.ints.append(name)
                q = ""
                if d.bool(0.06):
                    q = d.choice(["volatile ", "register "])
                    self.tag("decl:qualified")
                out.append((q + self.arith_type(), [Lx(name, "id", ("decl-name",))]))
            elif k == "ptr":
                name = self.fresh("var")
                env.ptrs.append(name)
                stars = d.weighted([(6, 1), (1, 2)])
                ty = d.choice(["char", "int", "void", "unsigned char", "const char", "long"])
                if ty == "void":
                    env.ptrs.pop()
                out.append((ty, [Lx("*", "op", ("ptr-decl",)) for _ in range(stars)] + [Lx(name, "id", ("decl-name",))]))
                self.tag("decl:ptr")
            elif k == "array":
                name = self.fresh("var")
                env.ptrs.append(name)
                # (a macro of the file, or one that an included header is assumed to provide)
                size = [Lx(d.choice(self.macros) if self.macros and d.bool(0.6) else d.choice(["BUFFER_SIZE", "PATH_MAX", "OPEN_MAX"]), "id", ("macro",))] \
                    if d.bool(0.4) else [Lx(str(d.int(1, 512)), "num", ("const:dec",))]
                if d.bool(0.12):
                    size = [Lx("'z'", "chr"), SP(), Lx("-", "op", ("binop", "binop:-")), SP(), Lx("'a'", "chr"), SP(), Lx("+", "op", ("binop", "binop:+")), SP(),
                            Lx("1", "num", ("const:dec",))]
                    self.tag("decl:array-size-with-char-constants")
                elif d.bool(0.12):
                    size = self.group_size()
                dec = [Lx(name, "id", ("decl-name",)), Lx("[", "br")] + size + [Lx("]", "br")]
                ty = d.choice(["char", "int", "long"])
                if d.bool(0.15):
                    dec += [Lx("[", "br"), Lx(str(d.int(1, 9)), "num", ("const:dec",)), Lx("]", "br")]
                    self.tag("decl:array2d")
                elif d.bool(0.15):
                    ty = "static const " + ty
                    vals = []
                    for n in range(d.int(1, 4)):
                        if n:
                            vals += [Lx(",", "comma"), SP()]
                        vals += self.constant(True)
                    dec = [Lx(name, "id", ("decl-name",)), Lx("[", "br"), Lx("]", "br"), SP(), Lx("=", "op", ("asgop", "init")), SP(), Lx("{", "brace", ("init-brace",))] + vals + \
                        [Lx("}", "brace", ("init-brace",))]
                    self.tag("decl:static-array-init")
                out.append((ty, dec))
                self.tag("decl:array")
            elif k == "struct":
                name = self.fresh("var")
                ty, mem = self.struct_type()
                env.structs.append((name, mem))
                out.append((ty, [Lx(name, "id", ("decl-name",))]))
                self.tag("decl:struct")
            elif k == "sptr":
                name = self.fresh("var")
                ty, mem = self.struct_type()
                env.sptrs.append((name, mem))
                out.append((ty, [Lx("*", "op", ("ptr-decl",)), Lx(name, "id", ("decl-name",))]))
                self.tag("decl:sptr")
            elif k == "fptr":
                name = self.fresh("var")
                env.fptrs.append(name)
                rty = self.arith_type()
                if "fptr-typedef-ret" in self.avoid and rty in ("size_t", "ssize_t"):
                    rty = "int"
                    self.tag("excluded:fptr-typedef-ret")
                out.append((rty, [Lx("(", "par"), Lx("*", "op", ("ptr-decl",)), Lx(name, "id", ("decl-name",)), Lx(")", "par"), Lx("(", "par")]
                            + self.ptypes() + [Lx(")", "par")]))
                self.tag("decl:fptr")
            elif k == "static":
                name = self.fresh("var")
                env.ints.append(name)
                out.append(("static " + d.choice(["int", "char", "long", "size_t"]),
                            [Lx(name, "id", ("decl-name",)), SP(), Lx("=", "op", ("asgop", "init")), SP()] + self.constant()))
                self.tag("decl:static-init")
            else:
                name = self.fresh("var")
                env.ints.append(name)
                out.append(("const " + d.choice(["int", "char", "long"]),
                            [Lx(name, "id", ("decl-name",)), SP(), Lx("=", "op", ("asgop", "init")), SP()] + self.constant()))
                self.tag("decl:const-init")
        return out

    def group_size(self):
        """an array size that begins with a parenthesised group or a cast: [(N + 1) * 2]  [(N + 1) & 7]  [(int)sizeof(int) * 2]"""
        d = self.d
        n = [Lx(d.choice(self.macros), "id", ("macro",))] if self.macros and d.bool(0.6) else [Lx(str(d.int(1, 64)), "num", ("const:dec",))]
        op = d.choice(["*", "&", "+", "<<"])
        tail = [SP(), Lx(op, "op", ("binop", "binop:" + op)), SP(), Lx(str(d.int(1, 9)), "num", ("const:dec",))]
        self.tag("array-size:group-first")
        if d.bool(0.3):
            return [Lx("(", "par", ("cast-open",)), Lx("int", "kw"), Lx(")", "par", ("cast-close",)), Lx("sizeof", "kw"), Lx("(", "par"), Lx("int", "kw"), Lx(")", "par")] + tail
        return [Lx("(", "par")] + n + [SP(), Lx("+", "op", ("binop", "binop:+")), SP(), Lx("1", "num", ("const:dec",)), Lx(")", "par")] + tail

    def struct_type(self):
        d = self.d
        mem = [d.choice(["x", "y", "len", "next", "val", "size", "data", "count", "idx", "fd"]) for _ in range(2)]
        if d.bool(0.7) or not self.stags:
            if not self.tdefs or d.bool(0.3):
                t = self.fresh("tdef", prefix="t_", lo=2, hi=6)
                self.tdefs.append(t)
            ty = d.choice(self.tdefs)
        else:
            ty = "struct " + d.choice(self.stags)
        return ty, mem

    def ptypes(self):
        """parameter type list of a function pointer"""
        d = self.d
        n = d.int(0, 3)
        if n == 0:
            return [Lx("void", "kw")]
        out = []
        for i in range(n):
            if i:
                out += [Lx(",", "comma"), SP()]
            ty = d.choice(["int", "char", "void", "long", "size_t"])
            out += self.type_lex(ty)
            if ty == "void" or d.bool(0.3):
                out += [SP(), Lx("*", "op", ("ptr-in-type",))]
        return out

    def align_col(self, widths, base):
        """0-based visual column of the first tab stop strictly right of the longest type"""
        m = max(widths)
        return ((base + m) // 4 + 1) * 4

    def tabs_to(self, cur, col):
        return TABS((col - cur + 3) // 4)

    def params(self, env, n):
        d = self.d
        if n == 0:
            return [Lx("void", "kw", ("void-params",))]
        out = []
        for i in range(n):
            if i:
                out += [Lx(",", "comma"), SP()]
            k = d.weighted([(6, "int"), (4, "ptr"), (1, "array"), (1, "fptr"), (1, "sptr")])
            name = self.fresh("var")
            if k == "int":
                env.ints.append(name)
                out += self.type_lex(self.arith_type()) + [SP(), Lx(name, "id", ("param-name",))]
            elif k == "ptr":
                env.ptrs.append(name)
                ty = d.choice(["char", "const char", "int", "void", "unsigned char"])
                if ty == "void":
                    env.ptrs.pop()
                stars = d.weighted([(12, 1), (3, 2), (1, 3)])
                cq = [Lx("const", "kw"), SP()] if d.bool(0.08) else []      # char *const p
                if cq:
                    self.tag("param:const-pointer")
                out += self.type_lex(ty) + [SP()] + [Lx("*", "op", ("ptr-param",)) for _ in range(stars)] + cq + [Lx(name, "id", ("param-name",))]
            elif k == "array":
                env.ptrs.append(name)
                stars = [Lx("*", "op", ("ptr-param",))] if d.bool(0.25) else []    # char *av[]
                out += self.type_lex(d.choice(["int", "char"])) + [SP()] + stars + [Lx(name, "id", ("param-name",)), Lx("[", "br")]
                if d.bool():
                    out += [Lx(str(d.int(1, 64)), "num", ("const:dec",))]
                out += [Lx("]", "br")]
                if d.bool(0.15):
                    out += [Lx("[", "br"), Lx(str(d.int(1, 9)), "num", ("const:dec",)), Lx("]", "br")]
                self.tag("param:array")
            elif k == "fptr":
                env.fptrs.append(name)
                rstar = [Lx("*", "op", ("ptr-in-type",))] if d.bool(0.35) else []
                if rstar:
                    self.tag("param:fptr-returning-pointer")
                out += self.type_lex(d.choice(["int", "void", "char"])) + [SP()] + rstar + [Lx("(", "par"), Lx("*", "op", ("ptr-param",)), Lx(name, "id", ("param-name",)),
                                                                                           Lx(")", "par"), Lx("(", "par")] + self.ptypes() + [Lx(")", "par")]
                self.tag("param:fptr")
            else:
                ty, mem = self.struct_type()
                env.sptrs.append((name, mem))
                out += self.type_lex(ty) + [SP(), Lx("*", "op", ("ptr-param",)), Lx(name, "id", ("param-name",))]
        if d.bool(0.06):
            out += [Lx(",", "comma"), SP(), Lx("...", "op", ("ellipsis",))]     # the Norm limits *named* parameters
            self.tag("param:variadic")
        return out

    # -- functions -------------------------------------------------------------------------------
    def function(self, fn, protos=None, inline=False):
        d = self.d
        p = self.prog
        env = Env()
        static = d.bool(0.3) or inline
        rk = d.weighted([(5, "int"), (3, "void"), (2, "ptr"), (1, "other")])
        stars = 0
        if rk == "int":
            rtype = "int"
        elif rk == "void":
            rtype = "void"
        elif rk == "ptr":
            rtype = d.choice(["char", "void", "int"])
            stars = d.weighted([(10, 1), (1, 2), (1, 3)])
        else:
            rtype = d.choice(["long", "size_t", "unsigned int", "char", "double", "ssize_t"])
        rv = not (rtype == "void" and stars == 0)
        name = self.fresh("fn", prefix=d.choice(["ft_", "", ""]), lo=2, hi=10)
        for _ in range(6):
            nparams = d.weighted([(2, 0), (3, 1), (3, 2), (2, 3), (1, 4)])
            env = Env()
            par = self.params(env, nparams)
            head = ([Lx("static", "kw"), SP()] if static else []) + ([Lx("inline", "kw"), SP()] if inline else []) + self.type_lex(rtype) + [Lx("\t", "tab", ("func-tab",))] + \
                [Lx("*", "op", ("ptr-func",)) for _ in range(stars)] + [Lx(name, "id", ("func-name",)), Lx("(", "par", ("params-open",))] + par + \
                [Lx(")", "par", ("params-close",))]
            if vwidth("".join(x.t for x in head)) <= 80:
                break
        else:
            env = Env()
            nparams = 0
            static = inline
            head = ([Lx("static", "kw"), SP(), Lx("inline", "kw"), SP()] if inline else []) + self.type_lex(rtype) + [Lx("\t", "tab", ("func-tab",))] + [Lx("*", "op", ("ptr-func",)) for _ in range(stars)] + \
                [Lx(name, "id", ("func-name",)), Lx("(", "par", ("params-open",)), Lx("void", "kw", ("void-params",)), Lx(")", "par", ("params-close",))]
        self.funcs_known.append((name, nparams))
        head_idx = len(p.lines)
        self.emit(head, "funchead", 0, fn, info={"name": name, "static": static, "nparams": nparams, "rtype": rtype, "stars": stars})
        open_idx = len(p.lines)
        self.emit([Lx("{", "brace")], "lbrace", 0, fn)
        body_left = d.weighted([(1, 25), (3, d.int(3, 24))]) if not self.opts.get("small") else d.int(2, 8)
        ndecl = d.weighted([(2, 0), (3, 1), (3, 2), (2, 3), (1, 4), (1, 5)])
        if not env.any_lvalues() and ndecl == 0:
            ndecl = 1
        ndecl = min(ndecl, max(0, body_left - 2))
        used = 0
        if ndecl:
            specs = self.decl_specs(env, ndecl)
            col = self.align_col([len(t) for t, _ in specs], 4)
            for ty, dec in specs:
                lex = TABS(1) + self.type_lex(ty)
                lex += [Lx("\t", "tab", ("align",)) for _ in self.tabs_to(4 + len(ty), col)] + dec + [Lx(";", "semi")]
                self.emit(lex, "decl", 1, fn, info={"type": ty})
            self.emit([], "blank", 1, fn, info={"after": "decls"})
            used = ndecl + 1
        if not env.any_lvalues():
            pass
        used += self.stmts(env, 1, fn, False, rv, max(1, body_left - used), 0, at_least_one=True)
        # a value-returning function ends with a return when there is room
        last = p.lines[-1]
        if rv and used < 25 and not (last.kind == "stmt" and last.info.get("stmt") == "return" and last.depth == 1):
            e = self.expr(env, 2, 60)
            if stars:
                e = [Lx("NULL", "kw")] if d.bool() or not env.ptrs else [Lx(d.choice(env.ptrs), "id")]
            self.emit(TABS(1) + [Lx("return", "kw"), SP(), Lx("(", "par", ("return-open",))] + e + [Lx(")", "par", ("return-close",)), Lx(";", "semi")],
                      "stmt", 1, fn, info={"stmt": "return"})
            used += 1
        close_idx = len(p.lines)
        self.emit([Lx("}", "brace")], "rbrace", 0, fn)
        p.funcs.append({"fn": fn, "name": name, "head": head_idx, "open": open_idx, "close": close_idx, "nparams": nparams, "ndecls": ndecl,
                        "static": static, "body_lines": used})
        return head

    # -- file level --------------------------------------------------------------------------------
    def blank(self):
        self.emit([], "blank", 0, -1)

    def header(self, name):
        fields = header42.fields(self.d, name)
        self.prog.header_fields = fields
        for i, txt in enumerate(header42.render(fields)):
            self.emit([Lx(txt, "cmt", ("header42",))], "hdr", 0, -1, info={"n": i + 1})

    def include_line(self, indent=0):
        d = self.d
        base = d.choice(["libft", "stdlib", "unistd", "stdio", "string", "fcntl", "limits", "minishell", "push_swap", "get_next_line"])
        if d.bool(0.3):
            base = d.choice(["sys/", "includes/", "../"]) + base
        form = d.bool()
        path = ("<%s.h>" if form else '"%s.h"') % base
        lex = [Lx("#", "hash")] + [SP() for _ in range(indent)] + [Lx("include", "pp"), SP(), Lx(path, "inc")]
        self.emit(lex, "include", 0, -1, info={"ppdepth": indent})

    def define_line(self, indent=0):
        d = self.d
        name = self.fresh("macro", upper=True, lo=2, hi=10)
        lex = [Lx("#", "hash")] + [SP() for _ in range(indent)] + [Lx("define", "pp"), SP(), Lx(name, "id", ("macro-def",))]
        k = d.weighted([(6, "num"), (2, "neg"), (2, "str"), (1, "chr"), (1, "none"), (1, "macro")])
        if k == "num":
            lex += [SP()] + self.constant()
            self.macros.append(name)
        elif k == "neg":
            lex += [SP(), Lx(d.choice(["-", "+", "~"]), "un", ("define-sign",))] + [Lx(str(d.int(1, 999)), "num", ("const:dec",))]
            self.macros.append(name)
        elif k == "str":
            lex += [SP()] + self.string_const(20)
        elif k == "chr":
            lex += [SP()] + self.char_const()
            self.macros.append(name)
        elif k == "macro" and self.macros:
            lex += [SP(), Lx(d.choice(self.macros), "id", ("macro",))]
            self.macros.append(name)
        self.emit(lex, "define", 0, -1, info={"ppdepth": indent, "value": k})
        self.tag("define:" + k)

    def pp(self, ind, word, rest=(), kind=None):
        self.emit([Lx("#", "hash")] + [SP()] * ind + [Lx(word, "pp")] + ([SP()] + list(rest) if rest else []), kind or word, 0, -1, info={"ppdepth": ind})

    def cond_block(self, ind):
        """#ifdef / #if … [#elif …] [#else …] #endif around defines (and #undef), or a lone #undef / #pragma"""
        d = self.d
        k = d.weighted([(3, "ifdef-else"), (3, "if-elif"), (2, "redefine"), (1, "undef"), (1, "pragma")])
        self.tag("cond-block:" + k)
        m = self.fresh("macro", upper=True, lo=3, hi=10)
        name = self.fresh("macro", upper=True, lo=2, hi=10)

        def define(val):
            self.pp(ind + 1, "define", [Lx(name, "id", ("macro-def",)), SP(), Lx(str(val), "num", ("const:dec",))], "define")
        if k == "ifdef-else":
            self.pp(ind, d.choice(["ifdef", "ifndef"]), [Lx(m, "id", ("macro",))], "ifndef")
            define(d.int(0, 99))
            self.pp(ind, "else", kind="ppelse")
            define(d.int(0, 99))
            self.pp(ind, "endif")
            self.macros.append(name)
        elif k == "if-elif":
            m2 = self.fresh("macro", upper=True, lo=3, hi=10)
            c1 = d.choice([[Lx("defined", "kw"), Lx("(", "par"), Lx(m, "id", ("macro",)), Lx(")", "par")],
                           [Lx("defined", "kw"), Lx("(", "par"), Lx(m, "id", ("macro",)), Lx(")", "par"), SP(), Lx("&&", "op", ("binop", "binop:&&")), SP(),
                            Lx(m, "id", ("macro",)), SP(), Lx(">", "op", ("binop", "binop:>")), SP(), Lx(str(d.int(0, 9)), "num", ("const:dec",))],
                           [Lx(m, "id", ("macro",)), SP(), Lx(d.choice(["==", ">=", "<"]), "op", ("binop",)), SP(), Lx(str(d.int(0, 99)), "num", ("const:dec",))]])
            self.pp(ind, "if", c1, "ifndef")
            define(d.int(0, 99))
            if d.bool(0.6):
                self.pp(ind, "elif", [Lx("!", "un"), Lx("defined", "kw"), Lx("(", "par"), Lx(m2, "id", ("macro",)), Lx(")", "par")], "ppelse")
                define(d.int(0, 99))
            if d.bool(0.5):
                self.pp(ind, "else", kind="ppelse")
                define(d.int(0, 99))
            self.pp(ind, "endif")
            self.macros.append(name)
        elif k == "redefine":
            self.pp(ind, "ifdef", [Lx(m, "id", ("macro",))], "ifndef")
            self.pp(ind + 1, "undef", [Lx(m, "id", ("macro",))], "undef")
            self.pp(ind + 1, "define", [Lx(m, "id", ("macro-def",)), SP(), Lx(str(d.int(0, 99)), "num", ("const:dec",))], "define")
            self.pp(ind, "endif")
        elif k == "undef":
            self.pp(ind, "undef", [Lx(m, "id", ("macro",))], "undef")
        else:
            self.pp(ind, "pragma", [Lx("once", "id")], "pragma")

    def comment_lines(self):
        """a file-level comment on its own line(s)"""
        d = self.d
        k = d.weighted([(3, "line"), (3, "block1"), (2, "blockn")])
        words = lambda n: " ".join(d.choice(["the", "value", "of", "this", "list", "returns", "frees", "node", "index", "buffer", "TODO", "x", "42"])
                                   for _ in range(n))
        self.tag("comment:" + k)
        if k == "line":
            self.emit([Lx("// " + words(d.int(1, 8)), "cmt")], "comment", 0, -1)
        elif k == "block1":
            self.emit([Lx("/* " + words(d.int(1, 8)) + " */", "cmt")], "comment", 0, -1)
        else:
            self.sid += 1
            sid = self.sid
            self.emit([Lx("/*", "cmt")], "comment", 0, -1, sid)
            for _ in range(d.int(1, 3) if d.bool(0.9) else d.int(8, 14)):     # now and then a long run: look-back loops have fixed horizons
                self.emit([Lx("** " + words(d.int(1, 8)), "cmt")], "comment", 0, -1, sid)
            self.emit([Lx("*/", "cmt")], "comment", 0, -1, sid)

    def global_lines(self, n):
        d = self.d
        specs = []
        for _ in range(n):
            name = self.fresh("glob", prefix="g_", lo=2, hi=8)
            q = d.weighted([(3, "static "), (2, "const "), (2, "static const "), (1, "")])
            k = d.weighted([(8, "int"), (4, "str"), (4, "array"), (2, "sized-array"), (2, "fptr"), (2, "str-array"), (2, "designated"), (1, "array2d-init"), (1, "sizeof-div"), (2, "utype-qualified")])
            if k == "str-array":
                ty = "static const char" if "static" in q or d.bool() else "const char"
                vals = []
                for i in range(d.int(1, 3)):
                    vals += self.string_const(6) + [Lx(",", "comma"), SP()]
                vals += [Lx("NULL", "kw")] if d.bool(0.6) else self.string_const(6)
                dec = [Lx("*", "op", ("ptr-decl",)), Lx(name, "id", ("decl-name", "global-name")), Lx("[", "br"), Lx("]", "br"), SP(), Lx("=", "op", ("asgop", "init")), SP(),
                       Lx("{", "brace", ("init-brace",))] + vals + [Lx("}", "brace", ("init-brace",))]
                self.tag("global:string-array")
            elif k == "designated":
                t, mem = self.struct_type()
                ty = d.choice(["static const ", "static ", "const "]) + t
                dec = [Lx(name, "id", ("decl-name", "global-name")), SP(), Lx("=", "op", ("asgop", "init")), SP(), Lx("{", "brace", ("init-brace",)),
                       Lx(".", "op", ("designator",)), Lx(mem[0], "id", ("member",)), SP(), Lx("=", "op", ("asgop", "init")), SP()] + self.constant(True)
                if mem[1] != mem[0]:
                    dec += [Lx(",", "comma"), SP(), Lx(".", "op", ("designator",)), Lx(mem[1], "id", ("member",)), SP(), Lx("=", "op", ("asgop", "init")), SP()] + \
                        (self.string_const(6) + ([SP()] + self.string_const(4) if d.bool(0.3) else []) if d.bool() else self.constant(True))
                dec += [Lx("}", "brace", ("init-brace",))]
                self.tag("global:designated-init")
            elif k == "utype-qualified":
                # a qualifier between a user-defined type (or its '*') and the name:  t_list *const<TAB>g_head = NULL;   t_x const<TAB>g_v = 0;
                t, mem = self.struct_type()
                if d.bool(0.6):
                    ty = d.choice(["static ", ""]) + t + " *const"
                    dec = [Lx(name, "id", ("decl-name", "global-name")), SP(), Lx("=", "op", ("asgop", "init")), SP(), Lx("NULL", "kw")]
                else:
                    ty = d.choice(["static ", ""]) + t + " " + d.choice(["const", "volatile"])
                    dec = [Lx(name, "id", ("decl-name", "global-name"))]
                    if ty.endswith("const"):
                        dec += [SP(), Lx("=", "op", ("asgop", "init")), SP(), Lx("{", "brace", ("init-brace",)), Lx("0", "num", ("const:dec",)), Lx("}", "brace", ("init-brace",))]
                self.tag("global:utype-qualified")
            elif k == "array2d-init":
                ty = q + d.choice(["int", "char", "long"])
                row = lambda: [Lx("{", "brace", ("init-brace",))] + self.constant(True) + [Lx(",", "comma"), SP()] + self.constant(True) + [Lx("}", "brace", ("init-brace",))]
                dec = [Lx(name, "id", ("decl-name", "global-name")), Lx("[", "br"), Lx("2", "num", ("const:dec",)), Lx("]", "br"), Lx("[", "br"), Lx("2", "num", ("const:dec",)), Lx("]", "br"),
                       SP(), Lx("=", "op", ("asgop", "init")), SP(), Lx("{", "brace", ("init-brace",))] + row() + [Lx(",", "comma"), SP()] + row() + [Lx("}", "brace", ("init-brace",))]
                self.tag("global:array2d-init")
            elif k == "sizeof-div" and self.globals_seen:
                ty = "static const " + d.choice(["int", "size_t"])
                other = d.choice(self.globals_seen)
                dec = [Lx(name, "id", ("decl-name", "global-name")), SP(), Lx("=", "op", ("asgop", "init")), SP(), Lx("sizeof", "kw"), Lx("(", "par"), Lx(other, "id"), Lx(")", "par"),
                       SP(), Lx("/", "op", ("binop", "binop:/")), SP(), Lx("sizeof", "kw"), Lx("(", "par"), Lx(other, "id"), Lx("[", "br"), Lx("0", "num", ("const:dec",)), Lx("]", "br"), Lx(")", "par")]
                self.tag("global:sizeof-div")
            elif k == "sizeof-div":
                ty = q + "int"
                dec = [Lx(name, "id", ("decl-name", "global-name"))] + ([SP(), Lx("=", "op", ("asgop", "init")), SP()] + self.constant() if "const" in q else [])
            elif k == "sized-array":
                ty = q + d.choice(["int", "char", "long"])
                size = d.choice([
                    [Lx("sizeof", "kw"), Lx("(", "par"), Lx("int", "kw"), Lx(")", "par")],
                    [Lx("(", "par"), Lx(str(d.int(1, 64)), "num", ("const:dec",)), Lx(")", "par")],
                    [Lx(str(d.int(1, 9)), "num", ("const:dec",)), SP(), Lx("*", "op", ("binop", "binop:*")), SP(), Lx("(", "par"), Lx("1", "num", ("const:dec",)), SP(),
                     Lx("+", "op", ("binop", "binop:+")), SP(), Lx("1", "num", ("const:dec",)), Lx(")", "par")],
                    [Lx(str(d.int(2, 512)), "num", ("const:dec",))],
                    [Lx("'z'", "chr"), SP(), Lx("-", "op", ("binop", "binop:-")), SP(), Lx("'a'", "chr"), SP(), Lx("+", "op", ("binop", "binop:+")), SP(), Lx("1", "num", ("const:dec",))],
                    [Lx("'Z'", "chr"), SP(), Lx("+", "op", ("binop", "binop:+")), SP(), Lx("1", "num", ("const:dec",))],
                    [Lx("sizeof", "kw"), Lx("(", "par"), Lx('"abc"', "str"), Lx(")", "par")],
                    self.group_size(),
                    self.group_size(),
                ])
                dec = [Lx(name, "id", ("decl-name", "global-name")), Lx("[", "br")] + size + [Lx("]", "br")]
                self.tag("global:sized-array")
            elif k == "fptr":
                ty = q + d.choice(["int", "void", "char"])
                pt = self.ptypes()
                dec = [Lx("(", "par"), Lx("*", "op", ("ptr-decl",)), Lx(name, "id", ("decl-name", "global-name")), Lx(")", "par"), Lx("(", "par")] + pt + [Lx(")", "par")]
                if d.bool(0.6) or "const" in q or "global-fptr-no-init" in self.avoid:
                    dec += [SP(), Lx("=", "op", ("asgop", "init")), SP(), Lx("NULL", "kw")]
                    if "global-fptr-no-init" in self.avoid:
                        self.tag("excluded:global-fptr-no-init")
                self.tag("global:fptr")
            elif k == "int":
                ty = q + d.choice(["int", "char", "long", "size_t", "unsigned int"])
                dec = [Lx(name, "id", ("decl-name", "global-name"))]
                if d.bool(0.7) or "const" in q:
                    dec += [SP(), Lx("=", "op", ("asgop", "init")), SP()] + (self.constant() if d.bool(0.8) else [Lx("-", "un", ("unary:-",))] + self.constant(True))
            elif k == "str":
                ty = q + "char"
                dec = [Lx("*", "op", ("ptr-decl",)), Lx(name, "id", ("decl-name", "global-name")), SP(), Lx("=", "op", ("asgop", "init")), SP()] + \
                    (self.string_const(16) if d.bool(0.8) else [Lx("NULL", "kw")])
            else:
                ty = q + d.choice(["int", "char"])
                vals = []
                for i in range(d.int(1, 4)):
                    if i:
                        vals += [Lx(",", "comma"), SP()]
                    vals += self.constant(True)
                dec = [Lx(name, "id", ("decl-name", "global-name")), Lx("[", "br"), Lx("]", "br"), SP(), Lx("=", "op", ("asgop", "init")), SP(),
                       Lx("{", "brace", ("init-brace",))] + vals + [Lx("}", "brace", ("init-brace",))]
                self.tag("global:array-init")
            specs.append((ty, dec))
            self.tag("global")
            if k in ("array", "str-array", "sized-array"):
                self.globals_seen.append(name)
        col = self.align_col([len(t) for t, _ in specs], 0)
        for ty, dec in specs:
            if col + self.width(dec) + 1 > 80:
                keep = [x for x in dec if "global-name" in x.tags]
                dec = [x for x in dec if x.t == "*" and "ptr-decl" in x.tags][:1] + keep + [SP(), Lx("=", "op", ("asgop", "init")), SP(), Lx("0", "num", ("const:dec",))]
            lex = self.type_lex(ty) + [Lx("\t", "tab", ("align",)) for _ in self.tabs_to(len(ty), col)] + dec + [Lx(";", "semi")]
            self.emit(lex, "global", 0, -1, info={"type": ty})

    def proto_specs(self, n, static_only):
        d = self.d
        specs = []
        for _ in range(n):
            for _ in range(6):
                env = Env()
                rtype = d.choice(["int", "void", "char", "size_t", "long", "unsigned int"])
                stars = d.weighted([(14, 0), (5, 1), (1, 2), (1, 3)])
                name = self.fresh("fn", prefix=d.choice(["ft_", "", ""]), lo=2, hi=10)
                npar = d.int(0, 4)
                par = self.params(env, npar)
                ty = ("static " if static_only else "") + rtype
                dec = [Lx("*", "op", ("ptr-func",)) for _ in range(stars)] + [Lx(name, "id", ("func-name", "proto-name")), Lx("(", "par", ("params-open",))] + par + \
                    [Lx(")", "par", ("params-close",)), Lx(";", "semi")]
                if len(ty) + 8 + self.width(dec) <= (72 if d.bool(0.8) else 110):     # wider ones are cut after a comma by emit_aligned
                    break
            self.funcs_known.append((name, npar))
            specs.append((ty, dec))
        return specs

    def cut_prototype(self, lex, col):
        """K4: a prototype cut after commas of its parameter list; continuation lines carry (name column / 4) + 1 tabs"""
        depth = 0
        cuts = []
        for k, x in enumerate(lex):
            if x.t == "(":
                depth += 1
            elif x.t == ")":
                depth -= 1
            elif x.k == "comma" and depth == 1:
                cuts.append(k)
        if not cuts:
            return None
        ind = TABS(col // 4 + 1)
        pieces = []
        cur = []
        start = 0
        last_cut = None
        k = 0
        # greedy: the longest prefix that fits, cut after a comma
        rest = lex
        first = True
        while True:
            prefix = [] if first else ind
            if vwidth("".join(x.t for x in prefix + rest)) <= 80 and not (first and len(pieces) == 0):
                pieces.append(prefix + rest)
                break
            cs = [j for j, x in enumerate(rest) if x.k == "comma" and self._depth_at(rest, j, first) == 1]
            fit = [j for j in cs if vwidth("".join(x.t for x in prefix + rest[:j + 1])) <= 80]
            if not fit:
                return None
            j = fit[-1] if not first or len(fit) == 1 else fit[self.d.int(0, len(fit) - 1)]
            pieces.append(prefix + rest[:j + 1])
            rest = rest[j + 1:]
            if rest and rest[0].k == "sp":
                rest = rest[1:]
            first = False
            if len(pieces) > 4:
                return None
        return pieces if len(pieces) >= 2 else None

    @staticmethod
    def _depth_at(lex, j, first):
        # parenthesis depth at position j; continuation pieces start inside the parameter list (depth 1)
        depth = 0 if first else 1
        for x in lex[:j]:
            if x.t == "(":
                depth += 1
            elif x.t == ")":
                depth -= 1
        return depth

    def emit_aligned(self, specs, kind, col=None, base=0):
        if col is None:
            col = self.align_col([len(t) for t, _ in specs], base)
        for ty, dec in specs:
            lex = self.type_lex(ty) + [Lx("\t", "tab", ("align",)) for _ in self.tabs_to(base + len(ty), col)] + dec
            if kind == "proto" and (vwidth("".join(x.t for x in lex)) > 80 or self.d.bool(0.08)):
                pieces = self.cut_prototype(lex, col)
                if pieces:
                    self.sid += 1
                    sid = self.sid
                    for n, piece in enumerate(pieces):
                        self.emit(piece, "proto" if n == 0 else "pcont", 0, -1, sid, info={"type": ty, "K": "K4"})
                    self.tag("K4")
                    continue
            if vwidth("".join(x.t for x in lex)) > 80 and kind == "proto":
                # too wide once aligned: fall back to a parameterless prototype of the same name
                keep = []
                for x in dec:
                    keep.append(x)
                    if "params-open" in x.tags:
                        break
                dec = keep + [Lx("void", "kw", ("void-params",)), Lx(")", "par", ("params-close",)), Lx(";", "semi")]
                lex = self.type_lex(ty) + [Lx("\t", "tab", ("align",)) for _ in self.tabs_to(base + len(ty), col)] + dec
            self.emit(lex, kind, 0, -1, info={"type": ty})
        return col


def gen_c(d, opts=None, name=None):
    opts = opts or {}
    g = Gen(d, "c", opts)
    base = name or (gen_basename(d) + ".c")
    p = Program(base, "c")
    g.prog = p
    if not opts.get("no_header"):
        g.header(base)
        g.blank()
    if d.bool(0.2) or "leading-comments" in opts.get("force", ()):
        for _ in range(d.int(2, 3) if "leading-comments" in opts.get("force", ()) else d.int(1, 3) if d.bool(0.85) else d.int(8, 12)):
            g.comment_lines()
        g.blank()
        g.tag("section:leading-comments")
    if d.bool(0.7):
        for _ in range(d.int(1, 3)):
            g.include_line()
        g.blank()
        g.tag("section:include")
    if d.bool(0.5) or "define" in opts.get("force", ()):
        for _ in range(d.int(1, 3)):
            g.define_line()
        g.blank()
        g.tag("section:define")
    if d.bool(0.12) or "cond-block" in opts.get("force", ()):
        g.cond_block(0)
        g.blank()
    if d.bool(0.3):
        g.comment_lines()
        if d.bool():
            g.blank()
    if d.bool(0.35) or "global" in opts.get("force", ()):
        g.global_lines(d.int(1, 3))
        g.blank()
        g.tag("section:global")
    forward = d.bool(0.25) or "forward-protos" in opts.get("force", ())
    if not forward and d.bool(0.3):
        specs = g.proto_specs(d.int(1, 3), static_only=True)
        g.emit_aligned(specs, "proto")
        g.blank()
        g.tag("section:proto")
    mark = len(p.lines)
    nfun = opts.get("nfuncs") or d.weighted([(4, 1), (3, 2), (2, 3), (1, 4), (1, 5)])
    for i in range(nfun):
        if i:
            g.blank()
        if d.bool(0.15):
            for _ in range(1 if d.bool(0.85) else d.int(8, 10)):
                g.comment_lines()
        g.function(i)
    if forward:
        # forward declarations (static prototypes) of functions defined below, possibly with prototypes of other functions in between
        specs = []
        for f in p.funcs:
            hl = p.lines[f["head"]]
            if hl.info.get("static") and d.bool(0.7):
                k0 = min(k for k, x in enumerate(hl.lex) if "ptr-func" in x.tags or "func-name" in x.tags)
                dec = [x.copy() for x in hl.lex[k0:]] + [Lx(";", "semi")]
                for x in dec:
                    if "func-name" in x.tags:
                        x.tags = tuple(x.tags) + ("proto-name", "forward-decl")
                specs.append(("static " + hl.info["rtype"], dec))
                if d.bool(0.4):
                    specs += g.proto_specs(1, static_only=True)
        if specs:
            if d.bool(0.3):
                specs.reverse()
            tail = p.lines[mark:]
            del p.lines[mark:]
            g.emit_aligned(specs, "proto")
            g.blank()
            n = len(p.lines) - mark
            p.lines += tail
            for f in p.funcs:
                for key in ("head", "open", "close"):
                    f[key] += n
            g.tag("section:proto", "proto:forward")
    return p


def decorate(p, d, skip=()):
    """Neutral decoration applied after generation (and after an operator, whose line is passed in `skip`): a comment at the end of
    a file-scope declaration line.  Kept out of the generator proper because the violation operators address line ends."""
    n = 0
    for i, ln in enumerate(p.lines):
        if ln.kind in ("global", "proto") and ln.fn < 0 and i not in skip and ln.lex and ln.lex[-1].k == "semi" and vwidth(ln.text) <= 60 and d.bool(0.12):
            ln.lex += [Lx("\t", "tab", ("trailing-comment-tab",)), Lx(d.choice(["/* table */", "// see above", "/* TODO */", "// x"]), "cmt", ("trailing-comment",))]
            n += 1
    if n:
        p.tags.add("comment:trailing")
    if d.bool(0.2):
        lengthen(p, d)
    return p


def lengthen(p, d):
    """Neutral decoration: one identifier of the program gets a very long spelling (31..72 characters), wherever every line that uses it
    still fits in 80 columns.  Names sit behind the alignment tabs, so the layout stays conforming."""
    cands = sorted(n for n, c in p.idents.items() if c in ("var", "fn", "macro", "glob") and len(n) >= 2)
    for _ in range(4):
        if not cands:
            return p
        name = d.choice(cands)
        slack = None
        for ln in p.lines:
            cnt = sum(1 for x in ln.lex if x.k == "id" and x.t == name)
            if cnt:
                room = (80 - vwidth(ln.text)) // cnt
                slack = room if slack is None else min(slack, room)
        if slack is None or len(name) + slack < 32:
            continue
        top = min(len(name) + slack, 72)
        # lengths around the translation limits of C (31 / 63 significant characters) and beyond
        length = min(top, d.choice([31, 32, 33, 63, 64, 65, 66, 72, d.int(32, 72), d.int(60, 72)]))
        if length <= len(name):
            continue
        k = 2 if name[:2] == "g_" else 3 if name[:3] == "ft_" else 1
        alpha = "ABCDEFGHIJKLMNOPQRSTUVWXYZ0123456789" if name.isupper() else "abcdefghijklmnopqrstuvwxyz0123456789"
        new = name[:k] + "".join(d.choice(alpha) for _ in range(length - len(name))) + name[k:]
        if new in p.idents:
            continue
        touched = []
        for ln in p.lines:
            for x in ln.lex:
                if x.k == "id" and x.t == name:
                    x.t = new
                    touched.append(x)
        if any(vwidth(ln.text) > 80 for ln in p.lines):
            for x in touched:
                x.t = name
            continue
        p.idents[new] = p.idents.pop(name)
        p.tags.add("name:long")
        return p
    return p


def gen_basename(d):
    s = d.choice("abcdefghijklmnopqrstuvwxyz")
    for _ in range(d.int(1, 9)):
        s += d.choice("abcdefghijklmnopqrstuvwxyz0123456789_")
    return s.rstrip("_") or "a"


# ---------------------------------------------------------------------------------------------
# header files


def guard_symbol(basename):
    return basename.upper().replace(".", "_")


def gen_h(d, opts=None, name=None, guard=True):
    opts = opts or {}
    g = Gen(d, "h", opts)
    base = name or (gen_basename(d) + ".h")
    p = Program(base, "h")
    g.prog = p
    if not opts.get("no_header"):
        g.header(base)
        g.blank()
    sym = guard_symbol(base)
    ind = 1 if guard else 0
    if guard:
        g.emit([Lx("#", "hash"), Lx("ifndef", "pp"), SP(), Lx(sym, "id", ("guard",))], "ifndef", 0, -1, info={"ppdepth": 0, "guard": True})
        g.emit([Lx("#", "hash"), SP(), Lx("define", "pp"), SP(), Lx(sym, "id", ("guard",))], "define", 0, -1, info={"ppdepth": 1, "guard": True})
        g.blank()
    if d.bool(0.7):
        for _ in range(d.int(1, 3)):
            g.include_line(ind)
        g.blank()
        g.tag("section:include")
    if d.bool(0.5):
        for _ in range(d.int(1, 3)):
            g.define_line(ind)
        g.blank()
        g.tag("section:define")
    if d.bool(0.25):
        # conditional define block
        m = g.fresh("macro", upper=True, lo=3, hi=10)
        g.emit([Lx("#", "hash")] + [SP()] * ind + [Lx("ifndef", "pp"), SP(), Lx(m, "id", ("macro",))], "ifndef", 0, -1, info={"ppdepth": ind})
        g.emit([Lx("#", "hash")] + [SP()] * (ind + 1) + [Lx("define", "pp"), SP(), Lx(m, "id", ("macro-def",)), SP()] + g.constant(True), "define", 0, -1,
               info={"ppdepth": ind + 1})
        g.emit([Lx("#", "hash")] + [SP()] * ind + [Lx("endif", "pp")], "endif", 0, -1, info={"ppdepth": ind})
        g.blank()
        g.macros.append(m)
        g.tag("section:ifndef-define")
    if d.bool(0.15):
        m = g.fresh("macro", upper=True, lo=3, hi=10)
        a, b = d.choice(["linux/limits", "limits", "sys/types"]), d.choice(["sys/syslimits", "stdint", "stddef"])
        g.emit([Lx("#", "hash")] + [SP()] * ind + [Lx("ifdef", "pp"), SP(), Lx(m, "id", ("macro",))], "ifndef", 0, -1, info={"ppdepth": ind})
        g.emit([Lx("#", "hash")] + [SP()] * (ind + 1) + [Lx("include", "pp"), SP(), Lx("<%s.h>" % a, "inc")], "include", 0, -1, info={"ppdepth": ind + 1})
        g.emit([Lx("#", "hash")] + [SP()] * ind + [Lx("else", "pp")], "ppelse", 0, -1, info={"ppdepth": ind})
        g.emit([Lx("#", "hash")] + [SP()] * (ind + 1) + [Lx("include", "pp"), SP(), Lx("<%s.h>" % b, "inc")], "include", 0, -1, info={"ppdepth": ind + 1})
        g.emit([Lx("#", "hash")] + [SP()] * ind + [Lx("endif", "pp")], "endif", 0, -1, info={"ppdepth": ind})
        g.blank()
        g.tag("section:ifdef-else-include")
    if d.bool(0.12) or "cond-block" in opts.get("force", ()):
        g.cond_block(ind)
        g.blank()
    # items: all names of the file's global scope share one column
    items = []
    nitems = d.int(1, 4)
    for _ in range(nitems):
        items.append(d.weighted([(4, "tstruct"), (2, "tenum"), (2, "struct"), (2, "alias"), (4, "protos"), (1, "tunion"), (1, "enum"), (1, "union")]))
    if "protos" not in items and d.bool(0.7):
        items.append("protos")
    order = {"alias": 0, "tenum": 1, "enum": 1, "struct": 2, "tstruct": 2, "tunion": 2, "union": 2, "protos": 3}
    items.sort(key=lambda k: order[k])
    built = []
    for k in items:
        if k in ("tstruct", "tunion", "struct", "union"):
            built.append((k, _struct_block(g, k)))
        elif k in ("tenum", "enum"):
            built.append((k, _enum_block(g, k)))
        elif k == "alias":
            specs = []
            for _ in range(d.int(1, 3)):
                t = g.fresh("tdef", prefix="t_", lo=2, hi=8)
                g.tdefs.append(t)
                ty = "typedef " + d.choice(["int", "unsigned int", "char", "long", "unsigned char", "unsigned long long"])
                if d.bool(0.2):     # typedef int	(*t_cmp)(void *, void *);
                    g.tag("alias:fptr")
                    specs.append((ty, [Lx("(", "par"), Lx("*", "op", ("ptr-decl",)), Lx(t, "id", ("decl-name", "typedef-name")), Lx(")", "par"), Lx("(", "par")] + g.ptypes() +
                                  [Lx(")", "par"), Lx(";", "semi")]))
                    continue
                dec = [Lx("*", "op", ("ptr-decl",))] if d.bool(0.2) else []
                arr = []
                if d.bool(0.2):     # typedef double	t_vec[4];  /  t_mat[4][4]
                    for _ in range(d.int(1, 2)):
                        arr += [Lx("[", "br"), Lx(str(d.int(1, 16)), "num", ("const:dec",)), Lx("]", "br")]
                    g.tag("alias:array")
                specs.append((ty, dec + [Lx(t, "id", ("decl-name", "typedef-name"))] + arr + [Lx(";", "semi")]))
            built.append((k, specs))
        else:
            built.append((k, g.proto_specs(d.int(1, 4), static_only=False)))
    # common column
    widths = []
    for k, b in built:
        if k in ("alias", "protos"):
            widths += [len(t) for t, _ in b]
        elif k in ("tstruct", "tunion", "tenum"):
            widths.append(1)  # "}"
    col = g.align_col(widths, 0) if widths else 4
    first = True
    for k, b in built:
        if not first:
            g.blank()
        first = False
        g.tag("hitem:" + k)
        if d.bool(0.15):
            g.comment_lines()
        if k in ("alias", "protos"):
            g.emit_aligned(b, "typedef" if k == "alias" else "proto", col=col)
        else:
            b(col)
    if d.bool(0.1) or "inline-function" in opts.get("force", ()):
        # a function defined in the header (static inline helper)
        g.blank()
        g.function(0, inline=True)
        g.tag("hitem:inline-function")
    g.blank()
    if guard:
        tail = []
        if d.bool(0.3):
            tail = [SP(), Lx(d.choice(["/* %s */" % sym, "// %s" % sym, "/* !%s */" % sym]), "cmt", ("endif-comment",))]
            g.tag("endif-comment")
        g.emit([Lx("#", "hash"), Lx("endif", "pp")] + tail, "endif", 0, -1, info={"ppdepth": 0, "guard": True})
    return p


def _members(g, n):
    d = g.d
    specs = []
    for _ in range(n):
        name = g.d.choice(["x", "y", "len", "next", "val", "size", "data", "count", "idx", "fd", "prev", "content", "key", "str", "tab"])
        name = name + ("" if d.bool(0.5) else str(d.int(0, 9)))
        k = d.weighted([(6, "int"), (3, "ptr"), (1, "array"), (1, "fptr"), (1, "bits"), (1, "self"), (1, "tdef")])
        if k == "self" and g.stags:
            specs.append(("struct " + d.choice(g.stags), [Lx("*", "op", ("ptr-decl",)), Lx(name, "id", ("decl-name", "member-decl"))]))
            g.tag("member:struct-pointer")
        elif k == "tdef" and g.tdefs:
            specs.append((d.choice(g.tdefs), ([Lx("*", "op", ("ptr-decl",))] if d.bool() else []) + [Lx(name, "id", ("decl-name", "member-decl"))]))
            g.tag("member:typedef-type")
        elif k in ("self", "tdef"):
            specs.append((g.arith_type(), [Lx(name, "id", ("decl-name", "member-decl"))]))
        elif k == "int":
            specs.append((g.arith_type(), [Lx(name, "id", ("decl-name", "member-decl"))]))
        elif k == "ptr":
            ty = d.choice(["char", "void", "int", "struct s_list"] if False else ["char", "void", "int", "unsigned char"])
            specs.append((ty, [Lx("*", "op", ("ptr-decl",)), Lx(name, "id", ("decl-name", "member-decl"))]))
        elif k == "array":
            size = g.group_size() if d.bool(0.15) else [Lx(str(d.int(1, 256)), "num", ("const:dec",))]
            specs.append((d.choice(["char", "int"]), [Lx(name, "id", ("decl-name", "member-decl")), Lx("[", "br")] + size + [Lx("]", "br")]))
        elif k == "fptr":
            specs.append((d.choice(["int", "void"]), [Lx("(", "par"), Lx("*", "op", ("ptr-decl",)), Lx(name, "id", ("decl-name", "member-decl")), Lx(")", "par"), Lx("(", "par")]
                          + g.ptypes() + [Lx(")", "par")]))
        else:
            specs.append(("unsigned int", [Lx(name, "id", ("decl-name", "member-decl")), SP(), Lx(":", "op", ("bitfield",)), SP(), Lx(str(d.int(1, 8)), "num", ("const:dec",))]))
    # member names must be distinct
    seen = set()
    out = []
    for ty, dec in specs:
        nm = [x for x in dec if "member-decl" in x.tags][0]
        while nm.t in seen:
            nm.t = nm.t + "x"
        seen.add(nm.t)
        out.append((ty, dec))
    return out


def _struct_block(g, k):
    d = g.d
    kw = "union" if k in ("tunion", "union") else "struct"
    tag = g.fresh("tag_u" if kw == "union" else "tag_s", prefix="u_" if kw == "union" else "s_", lo=2, hi=8)
    if kw == "struct":
        g.stags.append(tag)
    tname = None
    if k not in ("struct", "union"):
        tname = g.fresh("tdef", prefix="t_", lo=2, hi=8)
        g.tdefs.append(tname)
    mem = _members(g, d.int(1, 4))

    def emit(col):
        head = ([Lx("typedef", "kw"), SP()] if tname else []) + [Lx(kw, "kw"), SP(), Lx(tag, "id", ("tag-name",))]
        g.emit(head, "utype_open", 0, -1, info={"kw": kw, "typedef": bool(tname)})
        if g.d.bool(0.12):
            g.comment_lines()     # a comment on its own line(s) between the head of the type and its brace
            g.tag("comment:between-utype-head-and-brace")
        g.emit([Lx("{", "brace")], "lbrace", 0, -1, info={"utype": True})
        mcol = g.align_col([len(t) for t, _ in mem], 4)
        for ty, dec in mem:
            lex = TABS(1) + g.type_lex(ty) + [Lx("\t", "tab", ("align",)) for _ in g.tabs_to(4 + len(ty), mcol)] + dec + [Lx(";", "semi")]
            g.emit(lex, "member", 1, -1, info={"type": ty})
        if tname:
            g.emit([Lx("}", "brace")] + [Lx("\t", "tab", ("align", "typedef-tab")) for _ in g.tabs_to(1, col)] +
                   [Lx(tname, "id", ("decl-name", "typedef-name")), Lx(";", "semi")], "utype_close", 0, -1, info={"typedef": True})
        else:
            g.emit([Lx("}", "brace"), Lx(";", "semi")], "utype_close", 0, -1, info={"typedef": False})
    return emit


def _enum_block(g, k):
    d = g.d
    tag = g.fresh("tag_e", prefix="e_", lo=2, hi=8)
    tname = None
    if k == "tenum":
        tname = g.fresh("tdef", prefix="t_", lo=2, hi=8)
        g.tdefs.append(tname)
    names = [g.fresh("macro", upper=True, lo=2, hi=8) for _ in range(d.int(1, 4))]
    vals = [d.bool(0.3) for _ in names]
    vexpr = []
    for i, n in enumerate(names):
        kk = d.weighted([(5, "num"), (1, "shift"), (1, "neg"), (1, "chr"), (1, "prev"), (1, "paren")])
        num = Lx(str(i * 2), "num", ("const:dec",))
        if kk == "shift":
            vexpr.append([Lx("1", "num", ("const:dec",)), SP(), Lx("<<", "op", ("binop", "binop:<<")), SP(), Lx(str(i), "num", ("const:dec",))])
        elif kk == "neg":
            vexpr.append([Lx("-", "un", ("unary:-",)), Lx(str(i + 1), "num", ("const:dec",))])
        elif kk == "chr":
            vexpr.append(g.char_const())
        elif kk == "prev" and i:
            vexpr.append([Lx(names[i - 1], "id", ("macro",)), SP(), Lx("+", "op", ("binop", "binop:+")), SP(), Lx("1", "num", ("const:dec",))])
        elif kk == "paren":
            vexpr.append([Lx("(", "par"), num, Lx(")", "par")])
        else:
            vexpr.append([num])
        if vals[i] and kk != "num":
            g.tag("enum-value:" + kk)

    def emit(col):
        head = ([Lx("typedef", "kw"), SP()] if tname else []) + [Lx("enum", "kw"), SP(), Lx(tag, "id", ("tag-name",))]
        g.emit(head, "utype_open", 0, -1, info={"kw": "enum", "typedef": bool(tname)})
        g.emit([Lx("{", "brace")], "lbrace", 0, -1, info={"utype": True})
        for i, (n, v) in enumerate(zip(names, vals)):
            lex = TABS(1) + [Lx(n, "id", ("enumerator",))]
            if v:
                lex += [SP(), Lx("=", "op", ("asgop", "init")), SP()] + vexpr[i]
            if i < len(names) - 1:
                lex.append(Lx(",", "comma"))
            g.emit(lex, "enumerator", 1, -1)
        if tname:
            g.emit([Lx("}", "brace")] + [Lx("\t", "tab", ("align", "typedef-tab")) for _ in g.tabs_to(1, col)] +
                   [Lx(tname, "id", ("decl-name", "typedef-name")), Lx(";", "semi")], "utype_close", 0, -1, info={"typedef": True})
        else:
            g.emit([Lx("}", "brace"), Lx(";", "semi")], "utype_close", 0, -1, info={"typedef": False})
    return emit
