"""Reference alignment scanner (DESIGN §3.4): the oracle of C09/C10.

Shares no code with norminette/lexer.  It never tokenises: it only checks that the token texts the
tool produced can be laid over the raw input, in order, under exactly the three documented
normalisations (splices removed, di/trigraphs replaced, tabs in block comments expanded), and
computes the true (line, visual column) of every token's first raw character.
"""

TRIGRAPHS = {"??<": "{", "??>": "}", "??(": "[", "??)": "]", "??=": "#", "??/": "\\", "??'": "^", "??!": "|", "??-": "~"}
DIGRAPHS = {"<%": "{", "%>": "}", "<:": "[", ":>": "]", "%:": "#"}

KEYWORDS = ("auto break case char const continue default do double else enum extern float for goto if int long "
            "register return short signed sizeof static struct switch typedef union unsigned void volatile while "
            "inline NULL restrict").split()
OPERATORS = {
    "RIGHT_ASSIGN": ">>=", "LEFT_ASSIGN": "<<=", "ADD_ASSIGN": "+=", "SUB_ASSIGN": "-=", "MUL_ASSIGN": "*=",
    "DIV_ASSIGN": "/=", "MOD_ASSIGN": "%=", "AND_ASSIGN": "&=", "XOR_ASSIGN": "^=", "OR_ASSIGN": "|=",
    "LESS_OR_EQUAL": "<=", "GREATER_OR_EQUAL": ">=", "EQUALS": "==", "NOT_EQUAL": "!=", "ASSIGN": "=",
    "SEMI_COLON": ";", "COLON": ":", "COMMA": ",", "DOT": ".", "NOT": "!", "MINUS": "-", "PLUS": "+", "MULT": "*",
    "DIV": "/", "MODULO": "%", "LESS_THAN": "<", "MORE_THAN": ">", "ELLIPSIS": "...", "INC": "++", "DEC": "--",
    "PTR": "->", "AND": "&&", "OR": "||", "BWISE_XOR": "^", "BWISE_OR": "|", "BWISE_NOT": "~", "BWISE_AND": "&",
    "RIGHT_SHIFT": ">>", "LEFT_SHIFT": "<<", "TERN_CONDITION": "?", "HASH": "#",
    "LBRACE": "{", "RBRACE": "}", "LPARENTHESIS": "(", "RPARENTHESIS": ")", "LBRACKET": "[", "RBRACKET": "]",
    "SPACE": " ", "TAB": "\t", "NEWLINE": "\n",
}
SPELLING = dict(OPERATORS)
for _k in KEYWORDS:
    SPELLING[_k.upper() if _k != "NULL" else "NULL"] = _k
VALUED = {"IDENTIFIER", "CONSTANT", "STRING", "CHAR_CONST", "COMMENT", "MULT_COMMENT"}


def token_text(tok):
    """Text a token stands for, from its value or the unique spelling of its type (our own table,
    written from the C standard; a type we cannot spell is a scanner failure, not a guess)."""
    if tok.value is not None and tok.type in VALUED:
        return tok.value
    if tok.value is None and tok.type in SPELLING:
        return SPELLING[tok.type]
    return None


def positions(raw):
    """(line, col) of every raw offset, 1-based, tab stops every 4 columns; also for offset len(raw)."""
    out = []
    line, col = 1, 1
    for ch in raw:
        out.append((line, col))
        if ch == "\n":
            line += 1
            col = 1
        elif ch == "\t":
            col += 4 - (col - 1) % 4
        else:
            col += 1
    out.append((line, col))
    return out


def splice_len(raw, i):
    if raw.startswith("\\\n", i):
        return 2
    if raw.startswith("??/\n", i):
        return 4
    return 0


class Alignment:
    __slots__ = ("ok", "starts", "where", "why", "skipped")

    def __init__(self):
        self.ok = False
        self.starts = None     # raw offset of each token's first consumed character
        self.where = None      # farthest (token index, raw offset) reached on failure
        self.why = ""
        self.skipped = None    # raw offsets skipped as bad characters


def align(raw, tokens, nbad, pos=None, want_pos=None, bad_pos=None):
    """Find an alignment of tokens over raw.  nbad = number of BAD_LEXEME diagnostics (each allows
    skipping one raw character between tokens).  If want_pos is given (list of token positions),
    only alignments in which every token starts at that position are accepted, and, if bad_pos is
    given (set of positions), skipped characters must lie at those positions."""
    texts = []
    A = Alignment()
    for k, t in enumerate(tokens):
        tx = token_text(t)
        if tx is None or tx == "":
            A.why = "token %d (%s, %r) has no spelling" % (k, t.type, t.value)
            A.where = (k, 0, 0)
            return A
        texts.append((tx, t.type == "MULT_COMMENT"))
    n, nt = len(raw), len(texts)
    if pos is None:
        pos = positions(raw)
    start = (0, 0, 0, 0)   # token index, offset in token, raw offset, bad chars skipped
    parent = {start: None}
    stack = [start]
    far = (0, 0, 0)
    goal = None
    while stack:
        st = stack.pop()
        ti, j, i, sk = st
        if (ti, i) > far[:2]:
            far = (ti, i, j)
        if ti == nt and i == n:
            goal = st
            break
        nxt = []
        sl = splice_len(raw, i)
        if sl:  # a splice may be skipped anywhere
            nxt.append(((ti, j, i + sl, sk), "splice"))
        if j == 0 and i < n and sk < nbad and not sl:
            if bad_pos is None or pos[i] in bad_pos:
                nxt.append(((ti, j, i + 1, sk + 1), "bad"))
        if ti < nt and i < n:
            tx, is_mc = texts[ti]
            c = tx[j]
            if not (j == 0 and want_pos is not None and tuple(want_pos[ti]) != pos[i]):
                cands = []
                if raw[i] == c:
                    cands.append((1, 1))
                tri = raw[i:i + 3]
                if tri in TRIGRAPHS and TRIGRAPHS[tri] == c:
                    cands.append((3, 1))
                di = raw[i:i + 2]
                if di in DIGRAPHS and DIGRAPHS[di] == c:
                    cands.append((2, 1))
                if is_mc and raw[i] == "\t" and c == " ":
                    k = 4 - (pos[i][1] - 1) % 4
                    if tx[j:j + k] == " " * k:
                        cands.append((1, k))
                for craw, ctok in cands:
                    nj = j + ctok
                    if nj == len(tx):
                        nxt.append(((ti + 1, 0, i + craw, sk), "tok"))
                    else:
                        nxt.append(((ti, nj, i + craw, sk), "tok"))
        for s, tag in nxt:
            if s not in parent:
                parent[s] = (st, tag)
                stack.append(s)
    if goal is None:
        A.where = far
        A.why = "no alignment: stuck at token %d, raw offset %d (offset %d in the token text)" % far
        return A
    starts = [None] * nt
    skipped = []
    s = goal
    while parent[s] is not None:
        prev, tag = parent[s]
        if tag == "bad":
            skipped.append(prev[2])
        elif tag == "tok" and prev[1] == 0:
            starts[prev[0]] = prev[2]
        s = prev
    skipped.reverse()
    A.ok = True
    A.starts = starts
    A.skipped = skipped
    return A


def check(raw, tokens, bad_positions):
    """→ dict(roundtrip=bool, why, positions_ok=bool, first_bad=(index, tool_pos, true_pos)|None, starts)"""
    pos = positions(raw)
    nbad = len(bad_positions)
    res = {"roundtrip": False, "why": "", "positions_ok": None, "first_bad": None, "starts": None, "bad_ok": None}
    # C10: first with bad characters skipped only where a BAD_LEXEME diagnostic points (good attribution of
    # the failure point), then anywhere (so that a mere position error stays C09's business)
    exact = align(raw, tokens, nbad, pos, bad_pos=set(bad_positions))
    free = exact if exact.ok else align(raw, tokens, nbad, pos)
    if not free.ok:
        res["why"] = exact.why
        res["where"] = exact.where
        return res
    res["roundtrip"] = True
    res["starts"] = free.starts
    want = [t.pos for t in tokens]
    strict = align(raw, tokens, nbad, pos, want_pos=want, bad_pos=None)
    if strict.ok:
        res["positions_ok"] = True
        sk = sorted(pos[i] for i in strict.skipped)
        res["bad_ok"] = (sk == sorted(bad_positions)) or align(raw, tokens, nbad, pos, want_pos=want, bad_pos=set(bad_positions)).ok
        if not res["bad_ok"]:
            res["bad_detail"] = (sk, sorted(bad_positions))
        return res
    res["positions_ok"] = False
    for k, t in enumerate(tokens):
        st = free.starts[k]
        if st is not None and pos[st] != tuple(t.pos):
            res["first_bad"] = (k, tuple(t.pos), pos[st])
            break
    return res
