"""A tiny choice interface so that generators can be driven by Hypothesis (the normal case: every
choice is a Hypothesis draw, so cases replay from the seed and shrink) or by a plain PRNG (used
only by the atheris target, where the fuzzer's bytes seed the PRNG)."""
import functools

from hypothesis import strategies as st


@functools.lru_cache(maxsize=4096)
def _ints(lo, hi):
    return st.integers(lo, hi)


class HDraw:
    """Choices come from a Hypothesis `draw` function (inside @st.composite or st.data())."""

    def __init__(self, draw):
        self._draw = draw

    def int(self, lo, hi):
        if lo >= hi:
            return lo
        return self._draw(_ints(lo, hi))

    def bool(self, p=0.5):
        # p expressed in 1/64ths keeps draws integral (and shrinks towards False)
        return self.int(0, 63) >= 64 - max(0, min(64, int(round(p * 64))))

    def choice(self, seq):
        return seq[self.int(0, len(seq) - 1)]

    def weighted(self, pairs):
        """pairs: [(weight:int, item)]"""
        total = sum(w for w, _ in pairs)
        r = self.int(0, total - 1)
        for w, item in pairs:
            if r < w:
                return item
            r -= w
        return pairs[-1][1]

    def subset(self, seq, p=0.5):
        return [x for x in seq if self.bool(p)]

    def shuffle(self, seq):
        seq = list(seq)
        out = []
        while seq:
            out.append(seq.pop(self.int(0, len(seq) - 1)))
        return out


class RDraw(HDraw):
    def __init__(self, rnd):
        self._r = rnd

    def int(self, lo, hi):
        if lo >= hi:
            return lo
        return self._r.randint(lo, hi)


def composite(fn):
    """@composite def gen(d, *args) -> value ; usable as a hypothesis strategy factory."""
    @st.composite
    def strat(draw, *args, **kwargs):
        return fn(HDraw(draw), *args, **kwargs)
    return strat
