"""Step-budget monitor (DESIGN §3.6): termination is decided by counting the primitive steps every loop of
the tool goes through, never by the wall clock."""
import contextlib


class StepBudgetExceeded(BaseException):
    pass


class Counter:
    __slots__ = ("n", "limit")

    def __init__(self, limit):
        self.n = 0
        self.limit = limit


def budget_for(size):
    return 200000 + 400 * size * size if size < 2000 else 200000 + 400 * 2000 * 2000 + 5000 * size


@contextlib.contextmanager
def monitor(limit):
    from norminette.context import Context
    from norminette.lexer import Lexer
    cnt = Counter(limit)
    targets = [(Context, "peek_token"), (Context, "check_token"), (Lexer, "raw_peek"), (Lexer, "peek"), (Lexer, "pop")]
    saved = []
    for cls, name in targets:
        if not hasattr(cls, name):
            raise RuntimeError("monitored method %s.%s does not exist any more" % (cls.__name__, name))
        orig = getattr(cls, name)
        saved.append((cls, name, orig))

        def make(orig):
            def wrapper(*a, **k):
                cnt.n += 1
                if cnt.n > cnt.limit:
                    raise StepBudgetExceeded()
                return orig(*a, **k)
            return wrapper
        setattr(cls, name, make(orig))
    try:
        yield cnt
    finally:
        for cls, name, orig in saved:
            setattr(cls, name, orig)
