"""Lexeme soups and reduced alphabets (DESIGN §3.3)."""
import itertools

ALPHA24 = ["a", "1", "0", "x", "e", "u", ".", "+", "-", "*", "/", "<", ":", "%", "?", "=", "'", '"', "\\", "\n", " ", "\t", "@", "("]
ALPHA12 = ["a", "1", "\t", " ", "\n", "\\", "/", "*", '"', "'", "?", "="]

KEYWORDS = ["int", "char", "if", "else", "while", "return", "struct", "typedef", "sizeof", "static", "const", "void",
            "unsigned", "long", "NULL", "for", "do", "switch", "case", "goto", "enum", "union", "break", "continue"]
# identifiers that compilers treat as alternate keyword spellings: plain identifiers to the tool, spelled out in the token stream
RESERVED_LOOKING = ["__inline__", "__inline", "__restrict", "__restrict__", "__volatile__", "__const", "__signed__", "__asm__", "__attribute__",
                    "__extension__", "__typeof__", "__signed", "__volatile", "__const__"]
OPERATORS = [">>=", "<<=", "+=", "-=", "*=", "/=", "%=", "&=", "^=", "|=", "<=", ">=", "==", "!=", "=", ";", ":", ",", ".",
             "!", "-", "+", "*", "/", "%", "<", ">", "...", "++", "--", "->", "&&", "||", "^", "|", "~", "&", ">>", "<<",
             "?", "#"]
BRACKETS = ["{", "}", "(", ")", "[", "]"]
DIGRAPH_OF = {"{": "<%", "}": "%>", "[": "<:", "]": ":>", "#": "%:"}
TRIGRAPH_OF = {"{": "??<", "}": "??>", "[": "??(", "]": "??)", "#": "??=", "\\": "??/", "^": "??'", "|": "??!", "~": "??-"}
BAD_CHARS = ["@", "$", "`", "\\", "\r", "\f", "\v", "\x00", "\x7f", "é", "→", " "]

IDENT_START = "abcdefghijklmnopqrstuvwxyzABCDEFGHIJKLMNOPQRSTUVWXYZ_"
IDENT_REST = IDENT_START + "0123456789"


def strings_upto(alphabet, k):
    """All strings of length 1..k over alphabet (generator)."""
    for n in range(1, k + 1):
        for tup in itertools.product(alphabet, repeat=n):
            yield "".join(tup)


def count_upto(m, k):
    return sum(m ** n for n in range(1, k + 1))


def nth_string(alphabet, n, index):
    """index-th string of length n in product order."""
    m = len(alphabet)
    out = []
    for _ in range(n):
        out.append(alphabet[index % m])
        index //= m
    return "".join(reversed(out))


# ---------------------------------------------------------------------------------------------
# soup: a list of (class, text) lexemes


def ident(d, maxlen=8):
    n = d.int(1, maxlen)
    s = d.choice(IDENT_START)
    for _ in range(n - 1):
        s += d.choice(IDENT_REST)
    return s


def number(d):
    kind = d.int(0, 9)
    digs = lambda a, lo, hi: "".join(d.choice(a) for _ in range(d.int(lo, hi)))
    if kind == 0:
        return d.choice("123456789") + digs("0123456789", 0, 4)
    if kind == 1:
        return "0" + digs("01234567", 0, 3)
    if kind == 2:
        return "0" + d.choice("xX") + digs("0123456789abcdefABCDEF", 1, 4)
    if kind == 3:
        return "0" + d.choice("bB") + digs("01", 1, 5)
    if kind == 4:
        return digs("0123456789", 1, 3) + "." + digs("0123456789", 0, 3)
    if kind == 5:
        return "." + digs("0123456789", 1, 3)
    if kind == 6:
        return digs("0123456789", 1, 3) + d.choice("eE") + d.choice(["", "+", "-"]) + digs("0123456789", 1, 2)
    if kind == 7:
        return digs("0123456789", 1, 3) + d.choice(["u", "U", "l", "L", "ul", "LL", "ull", "f", "F", "z"])
    if kind == 8:  # malformed
        return d.choice(["0b12", "089", "0x1g", "12a", "1.2.3", "1e", "1.5e+", "0x", "1uu", "1.0q", "0xx1", "1..2"])
    return "0"


ESCAPES = ["\\n", "\\t", "\\\\", "\\'", '\\"', "\\0", "\\x41", "\\101", "\\?", "\\a", "\\q", "\\x", "\\u00e9"]
STR_CHARS = list("abz019 +-*/%=<>!&|^~,.;:(){}[]#?_") + ["\t"]


def literal_body(d, quote, maxlen):
    out = ""
    for _ in range(d.int(0, maxlen)):
        r = d.int(0, 9)
        if r < 6:
            out += d.choice(STR_CHARS)
        elif r < 8:
            out += d.choice(ESCAPES)
        elif r == 8:
            out += "'" if quote == '"' else '"'
        else:
            out += d.choice(["\\\n", "??/\n", "<:", "??(", "??/n", "\\\t", "%>"])
    return out


def string_lit(d):
    pre = d.weighted([(8, ""), (1, "L"), (1, "u8"), (1, "u"), (1, "U")])
    body = literal_body(d, '"', 8)
    term = d.weighted([(12, '"'), (1, "")])
    return pre + '"' + body + term


def char_lit(d):
    pre = d.weighted([(8, ""), (1, "L"), (1, "u8"), (1, "u"), (1, "U")])
    body = literal_body(d, "'", 2) if d.bool(0.3) else d.choice(["a", "0", "\\n", "\\0", "\\'", " ", "\\x7f", ""])
    term = d.weighted([(12, "'"), (1, "")])
    return pre + "'" + body + term


def comment_text(d, maxlen, multiline):
    out = ""
    for _ in range(d.int(0, maxlen)):
        r = d.int(0, 11)
        if r < 6:
            out += d.choice("abc xyz019+-=;{}()\"'#")
        elif r == 6:
            out += "\t"
        elif r == 7:
            out += "*"
        elif r == 8:
            out += "/"
        elif r == 9 and multiline:
            out += "\n"
        elif r == 10:
            out += d.choice(["\\\n", "??/\n", "\\", "??/"])
        else:
            out += d.choice(["<:", "??(", "??-", "%>"])
    return out


def lexeme(d, profile="mixed"):
    """→ (class, text)"""
    table = [
        (10, "ident"), (5, "kw"), (8, "num"), (5, "str"), (4, "chr"), (14, "op"), (8, "br"),
        (14, "sp"), (8, "tab"), (8, "nl"), (4, "lc"), (6, "bc"), (5, "splice"), (4, "alt"), (3, "bad"),
    ]
    if profile == "clean":  # only complete, well-formed lexemes (for C12)
        table = [(10, "ident"), (5, "kw"), (8, "num_ok"), (4, "str_ok"), (3, "chr_ok"), (14, "op"), (8, "br"),
                 (14, "sp"), (6, "tab"), (8, "nl"), (3, "bc_ok")]
    k = d.weighted(table)
    if k == "ident":
        return k, ident(d)
    if k == "kw":
        return k, d.choice(KEYWORDS + RESERVED_LOOKING)
    if k == "num":
        return k, number(d)
    if k == "num_ok":
        while True:
            kind_txt = number(d)
            if kind_txt not in ("0b12", "089", "0x1g", "12a", "1.2.3", "1e", "1.5e+", "0x", "1uu", "1.0q", "0xx1", "1..2"):
                return "num", kind_txt
    if k == "str":
        return k, string_lit(d)
    if k == "str_ok":
        return "str", '"' + "".join(d.choice("abz019 +-*/=<>(){}[];,") for _ in range(d.int(0, 6))) + '"'
    if k == "chr":
        return k, char_lit(d)
    if k == "chr_ok":
        return "chr", "'" + d.choice(["a", "0", "\\n", "\\0", " ", "z"]) + "'"
    if k == "op":
        return k, d.choice(OPERATORS)
    if k == "br":
        return k, d.choice(BRACKETS)
    if k == "sp":
        return k, " " * d.weighted([(8, 1), (2, 2), (1, 3)])
    if k == "tab":
        return k, "\t" * d.weighted([(8, 1), (2, 2)])
    if k == "nl":
        return k, "\n"
    if k == "lc":
        return k, "//" + comment_text(d, 8, False) + d.weighted([(6, "\n"), (1, "")])
    if k == "bc":
        return k, "/*" + comment_text(d, 10, True) + d.weighted([(10, "*/"), (1, "")])
    if k == "bc_ok":
        return "bc", "/*" + "".join(d.choice("abc xyz019+-=;{}()\n") for _ in range(d.int(0, 8))) + "*/"
    if k == "splice":
        return k, d.choice(["\\\n", "??/\n"]) * d.weighted([(8, 1), (1, 2)])
    if k == "alt":
        c = d.choice(list(TRIGRAPH_OF))
        if c in DIGRAPH_OF and d.bool():
            return k, DIGRAPH_OF[c]
        return k, TRIGRAPH_OF[c]
    if k == "bad":
        return k, d.choice(BAD_CHARS)
    raise AssertionError(k)


def soup(d, lo=1, hi=40, profile="mixed"):
    n = d.int(lo, hi)
    return [lexeme(d, profile) for _ in range(n)]
