"""Core plumbing: campaigns, shards, buckets, known findings, evidence, exit codes.

Exit contract (DESIGN §2.3): 0 held / only known findings; 1 + VIOLATION lines for new root
causes; 2 harness error (never prints VIOLATION).
"""
import collections
import hashlib
import json
import multiprocessing as mp
import os
import sys
import time
import traceback

VERIF = os.path.dirname(os.path.dirname(os.path.abspath(__file__)))
REPO = os.environ.get("NV_REPO", "/repo")
LEVEL = "exploration"


class HarnessError(Exception):
    """Something is wrong with the machinery (not with norminette): exit 2."""


def sha(obj):
    if not isinstance(obj, (str, bytes)):
        obj = json.dumps(obj, sort_keys=True, default=str)
    if isinstance(obj, str):
        obj = obj.encode("utf-8", "surrogatepass")
    return hashlib.sha1(obj).hexdigest()


def seed_of(base, shard=0, salt=0):
    return (int(base) * 1000 + shard) * 101 + salt


class Campaign:
    """Accumulates what one run (or shard) explored.  Picklable via to_dict / merge."""

    MAX_SAMPLES = 8

    def __init__(self):
        self.evaluations = 0
        self.nontrivial = set()
        self.samples = []
        self.counters = collections.Counter()
        self.buckets = {}
        self.extra = {}

    # -- recording -------------------------------------------------------------------------
    def case(self, ident=None, nontrivial=False, n=1):
        self.evaluations += n
        if nontrivial and ident is not None:
            self.nontrivial.add(ident if isinstance(ident, str) and len(ident) == 40 else sha(ident))

    def count(self, label, n=1):
        self.counters[label] += n

    def sample(self, obj, every=1):
        if len(self.samples) < self.MAX_SAMPLES and (self.evaluations % max(every, 1) == 0 or not self.samples):
            self.samples.append(obj)

    def fail(self, key, what, case):
        b = self.buckets.get(key)
        size = len(json.dumps(case, default=str))
        if b is None:
            self.buckets[key] = {"count": 1, "what": what, "case": case, "size": size}
        else:
            b["count"] += 1
            if size < b["size"]:
                b.update(what=what, case=case, size=size)

    # -- transport -------------------------------------------------------------------------
    def to_dict(self):
        return {
            "evaluations": self.evaluations,
            "nontrivial": sorted(self.nontrivial),
            "samples": self.samples,
            "counters": dict(self.counters),
            "buckets": self.buckets,
            "extra": self.extra,
        }

    def merge(self, d):
        if isinstance(d, Campaign):
            d = d.to_dict()
        self.evaluations += d["evaluations"]
        self.nontrivial.update(d["nontrivial"])
        for s in d["samples"]:
            if len(self.samples) < self.MAX_SAMPLES:
                self.samples.append(s)
        self.counters.update(d["counters"])
        for k, b in d["buckets"].items():
            mine = self.buckets.get(k)
            if mine is None:
                self.buckets[k] = dict(b)
            else:
                mine["count"] += b["count"]
                if b["size"] < mine["size"]:
                    mine.update(what=b["what"], case=b["case"], size=b["size"])
        for k, v in d.get("extra", {}).items():
            if isinstance(v, (int, float)) and isinstance(self.extra.get(k), (int, float)):
                if k.startswith("max_"):
                    self.extra[k] = max(self.extra[k], v)
                else:
                    self.extra[k] += v
            elif isinstance(v, list) and isinstance(self.extra.get(k), list):
                self.extra[k] = self.extra[k] + v
            elif isinstance(v, dict) and isinstance(self.extra.get(k), dict):
                self.extra[k].update(v)
            else:
                self.extra.setdefault(k, v)
        return self


# ---------------------------------------------------------------------------------------------
# shards


HARD_S = 90                      # a worker that gives no sign of life for this long while analysing one input is stopped by a C-level watchdog
HANG_VIOLATION_PIDS = ("C05", "C01")   # checks for which "no answer" is the property itself; the others end with a harness error (inconclusive)
CURRENT_PID = None
_CUR = {"map": None, "armed": 0.0, "tb": None}


def install_current(path):
    """called in a freshly forked worker: `path` receives the input under analysis (read by the parent if the worker has to be stopped)"""
    import mmap
    with open(path, "wb") as f:
        f.write(b"\0" * (1 << 18))
    fd = os.open(path, os.O_RDWR)
    _CUR["map"] = mmap.mmap(fd, 1 << 18)
    _CUR["tb"] = open(path + ".tb", "w")
    _CUR["armed"] = 0.0


def note_current(name, text):
    """record the input that is about to be analysed and keep the hard watchdog armed (Python-level signal handlers cannot interrupt a
    regular-expression match or any other long C call; faulthandler's watchdog thread can, but only by ending the process)"""
    m = _CUR["map"]
    if m is None:
        return
    try:
        nb = name.encode("utf-8", "surrogateescape")[:1000]
        tb = text.encode("utf-8", "surrogateescape")[:(1 << 18) - 1100]
    except Exception:
        return
    m.seek(0)
    m.write(len(nb).to_bytes(4, "big") + len(tb).to_bytes(4, "big") + nb + tb)
    now = time.monotonic()
    if now - _CUR["armed"] > 0.5:
        import faulthandler
        faulthandler.dump_traceback_later(HARD_S, exit=True, file=_CUR["tb"])
        _CUR["armed"] = now


def _read_current(path):
    try:
        with open(path, "rb") as f:
            raw = f.read()
        n, t = int.from_bytes(raw[:4], "big"), int.from_bytes(raw[4:8], "big")
        if n == 0 and t == 0:
            return None
        return raw[8:8 + n].decode("utf-8", "surrogateescape"), raw[8 + n:8 + n + t].decode("utf-8", "surrogateescape")
    except OSError:
        return None


def _shard_entry(args):
    func, kwargs = args
    try:
        res = func(**kwargs)
        if isinstance(res, Campaign):
            res = res.to_dict()
        return ("ok", res)
    except HarnessError as e:
        return ("harness", "".join(traceback.format_exception(e)))
    except BaseException as e:  # noqa: a worker must always answer
        return ("harness", "".join(traceback.format_exception(e)))


def _fork_map(func, shard_kwargs, procs):
    """One forked process per shard (fresh state for every shard), at most `procs` at a time; a worker that dies ends the run with a
    harness error instead of being waited for (what multiprocessing.Pool does)."""
    import pickle
    import tempfile
    pending = list(enumerate(shard_kwargs))
    running = {}
    results = [None] * len(shard_kwargs)
    tmpdir = tempfile.mkdtemp(prefix="nv-shards-")
    try:
        while pending or running:
            while pending and len(running) < procs:
                idx, kw = pending.pop(0)
                path = os.path.join(tmpdir, "%d.pkl" % idx)
                sys.stdout.flush()
                sys.stderr.flush()
                pid = os.fork()
                if pid == 0:
                    code = 3
                    try:
                        install_current(os.path.join(tmpdir, "cur_%d" % idx))
                        res = _shard_entry((func, kw))
                        import faulthandler
                        faulthandler.cancel_dump_traceback_later()
                        with open(path, "wb") as f:
                            pickle.dump(res, f)
                        code = 0
                    finally:
                        os._exit(code)
                running[pid] = (idx, path)
            pid, st = os.wait()
            if pid not in running:
                continue
            idx, path = running.pop(pid)
            code = os.waitstatus_to_exitcode(st)
            tbp = os.path.join(tmpdir, "cur_%d.tb" % idx)
            if code == 1 and os.path.exists(tbp) and os.path.getsize(tbp) > 0:
                cur = _read_current(os.path.join(tmpdir, "cur_%d" % idx))
                if cur is not None:
                    # stopped by the hard watchdog while analysing `cur`
                    results[idx] = ("hang", {"name": cur[0], "text": cur[1]})
                    continue
            if code != 0 or not os.path.exists(path):
                for other in running:
                    try:
                        os.kill(other, 9)
                    except OSError:
                        pass
                for other in list(running):
                    try:
                        os.waitpid(other, 0)
                    except OSError:
                        pass
                raise HarnessError("worker for shard %d died (exit status %s)" % (idx, code))
            with open(path, "rb") as f:
                results[idx] = pickle.load(f)
    finally:
        import shutil
        shutil.rmtree(tmpdir, ignore_errors=True)
    return results


def run_shards(func, shard_kwargs, procs=None):
    """Run func(**kw) for every kw in shard_kwargs in separate forked processes; merge."""
    procs = procs or min(len(shard_kwargs), int(os.environ.get("NV_PROCS", "16")))
    total = Campaign()
    if procs <= 1 or len(shard_kwargs) == 1:
        results = [_shard_entry((func, kw)) for kw in shard_kwargs]
    else:
        results = _fork_map(func, shard_kwargs, procs)
    for status, payload in results:
        if status == "hang":
            if CURRENT_PID in HANG_VIOLATION_PIDS:
                total.fail("%s|HANG|hard-watchdog" % CURRENT_PID, "no answer within %d s on %r (a worker had to be stopped; the rest of its shard was not run)" % (
                    HARD_S, payload["text"][:80]), {"name": payload["name"], "text": payload["text"], "hard_hang": True})
                total.count("shards-cut-short-by-a-hang")
                continue
            raise HarnessError("a worker gave no answer within %d s on the input %r of file %s: the tool hangs (that is C05's property; this check is inconclusive)" % (
                HARD_S, payload["text"][:120], payload["name"]))
        if status != "ok":
            raise HarnessError("worker failed:\n" + payload)
        total.merge(payload)
    return total


def guarded(fn, timeout):
    """fn() in a forked child; -> ("ok", None) or ("hang", None) when it has to be stopped after `timeout` seconds"""
    pid = os.fork()
    if pid == 0:
        code = 0
        try:
            fn()
        except BaseException:
            code = 0
        finally:
            os._exit(code)
    t0 = time.time()
    while time.time() - t0 < timeout:
        got, st = os.waitpid(pid, os.WNOHANG)
        if got == pid:
            return "ok"
        time.sleep(0.05)
    os.kill(pid, 9)
    os.waitpid(pid, 0)
    return "hang"


# ---------------------------------------------------------------------------------------------
# hypothesis wiring


def hyp_run(body, strategy, seed, max_examples):
    """Run body(value) on max_examples values of strategy; seeded; never stops at a failure
    (bodies record into a Campaign and return)."""
    from hypothesis import given, settings, seed as hseed, HealthCheck, Phase

    st = settings(
        max_examples=max_examples,
        database=None,
        deadline=None,
        derandomize=False,
        report_multiple_bugs=False,
        suppress_health_check=list(HealthCheck),
        phases=[Phase.generate],
    )

    @hseed(seed)
    @st
    @given(strategy)
    def test(v):
        body(v)

    test()


# ---------------------------------------------------------------------------------------------
# known findings


def load_known(pid):
    path = os.path.join(VERIF, "known_findings.json")
    if not os.path.exists(path):
        return []
    with open(path) as f:
        data = json.load(f)
    return [e for e in data.get("findings", []) if e.get("property") == pid]


def match_known(known, key):
    for e in known:
        if e.get("status") != "open":
            continue
        if e.get("key") == key:
            return e
    return None


# ---------------------------------------------------------------------------------------------
# regression replays (committed, /verif/regress/<pid>/*.json)


def regress_cases(pid):
    d = os.path.join(VERIF, "regress", pid)
    out = []
    if os.path.isdir(d):
        for n in sorted(os.listdir(d)):
            if n.endswith(".json"):
                with open(os.path.join(d, n)) as f:
                    out.append((n, json.load(f)))
    return out


# ---------------------------------------------------------------------------------------------
# shrinking (DESIGN §3.7): delta debugging on the text of a failing case, keeping the bucket key


def _ddmin(units, pred, deadline, joiner):
    n = 2
    while len(units) >= 2 and time.time() < deadline:
        chunk = max(1, len(units) // n)
        removed = False
        i = 0
        while i < len(units) and time.time() < deadline:
            cand = units[:i] + units[i + chunk:]
            if cand and pred(joiner.join(cand)):
                units = cand
                n = max(n - 1, 2)
                removed = True
            else:
                i += chunk
        if not removed:
            if chunk == 1:
                break
            n = min(n * 2, len(units))
    return units


def shrink_text(text, pred, seconds):
    """smallest text found within the time cap for which pred(text) still holds (lines first, then characters)"""
    deadline = time.time() + seconds
    try:
        if not pred(text):
            return text   # not reproducible through replay: keep as found
    except Exception:
        return text
    trailing = text.endswith("\n")
    lines = (text[:-1] if trailing else text).split("\n")
    tail = "\n" if trailing else ""
    lines = _ddmin(lines, lambda t: pred(t + tail), deadline, "\n")
    cur = "\n".join(lines) + tail
    if len(cur) <= 400:
        chars = _ddmin(list(cur), pred, deadline, "")
        cur = "".join(chars)
    return cur


def shrink_bucket(replay_fn, pid, key, case, seconds):
    """generic: shrinks case["text"] (or the first file of case["files"]) while replay still yields `key`"""
    import copy
    if replay_fn is None or case.get("hard_hang"):
        return case, False
    if "text" in case and isinstance(case["text"], str) and "line" not in case and "where" not in case:
        def pred(t):
            c = copy.deepcopy(case)
            c["text"] = t
            ks = {k for k, _ in replay_fn(pid, c)}
            return ks == {key}   # the same root cause and nothing else wrong: the shrunk input stays inside the property's domain
        new = shrink_text(case["text"], pred, seconds)
        if len(new) < len(case["text"]):
            c = copy.deepcopy(case)
            c["text"] = new
            c["shrunk_from_chars"] = len(case["text"])
            return c, True
    elif "files" in case and case["files"]:
        def pred(t):
            c = copy.deepcopy(case)
            c["files"] = [[c["files"][0][0], t]]
            ks = {k for k, _ in replay_fn(pid, c)}
            return ks == {key}
        new = shrink_text(case["files"][0][1], pred, seconds)
        if len(new) < len(case["files"][0][1]) or len(case["files"]) > 1:
            c = copy.deepcopy(case)
            if pred(new):
                c["files"] = [[c["files"][0][0], new]]
                c["shrunk"] = True
                return c, True
    return case, False


# ---------------------------------------------------------------------------------------------
# finishing a run


def finish(pid, tier, seed, camp, rule, t0, assumptions=(), level=LEVEL, min_nontrivial=2, extra_cov=None, replay_fn=None):
    known = load_known(pid)
    violations = 0
    lines = []
    seen_known = []
    shrink_left = 6   # new buckets shrunk per run (each capped in time); the rest keep their smallest recorded case
    for key in sorted(camp.buckets):
        b = camp.buckets[key]
        e = match_known(known, key)
        if e is not None:
            lines.append("KNOWN-FINDING: property=%s %s [key=%s, seen %d×]" % (pid, e.get("what", b["what"]), key, b["count"]))
            seen_known.append(key)
            continue
        violations += 1
        if shrink_left > 0 and replay_fn is not None:
            shrink_left -= 1
            try:
                b["case"], _ = shrink_bucket(replay_fn, pid, key, b["case"], 20 if tier == "quick" else 90)
            except Exception:
                pass
        rdir = os.path.join(VERIF, "replays", pid)
        os.makedirs(rdir, exist_ok=True)
        path = os.path.join(rdir, sha(key)[:12] + ".json")
        with open(path, "w") as f:
            json.dump({"property": pid, "key": key, "what": b["what"], "count": b["count"], "seed": seed,
                       "tier": tier, "case": b["case"]}, f, indent=1, default=str)
        lines.append("VIOLATION property=%s replay=%s" % (pid, path))
        lines.append("  key=%s count=%d: %s" % (key, b["count"], str(b["what"])[:300]))
    coverage = {
        "evaluations": camp.evaluations,
        "distinct_nontrivial": len(camp.nontrivial),
        "rule": rule,
        "samples": camp.samples[: Campaign.MAX_SAMPLES],
        "class_counters": dict(sorted(camp.counters.items())),
        "buckets_seen": {k: camp.buckets[k]["count"] for k in sorted(camp.buckets)},
        "known_findings_reobserved": seen_known,
    }
    coverage.update(camp.extra)
    if extra_cov:
        coverage.update(extra_cov)
    ev = {
        "property_id": pid,
        "tier": tier,
        "seed": int(seed),
        "level": level,
        "coverage": coverage,
        "assumptions": list(assumptions),
        "wall_s": round(time.time() - t0, 2),
        "violations": violations,
    }
    os.makedirs(os.path.join(VERIF, "evidence"), exist_ok=True)
    with open(os.path.join(VERIF, "evidence", pid + ".json"), "w") as f:
        json.dump(ev, f, indent=1, default=str)
    for ln in lines:
        print(ln)
    if camp.evaluations < 1 or len(camp.nontrivial) < min_nontrivial:
        print("HARNESS: vacuous run (evaluations=%d nontrivial=%d)" % (camp.evaluations, len(camp.nontrivial)))
        return 2
    print("%s %s seed=%s: evaluations=%d nontrivial=%d violations=%d known=%d wall=%.1fs" % (
        pid, tier, seed, camp.evaluations, len(camp.nontrivial), violations, len(seen_known), time.time() - t0))
    return 1 if violations else 0
