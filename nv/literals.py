"""C11 §6.4.4 / §6.4.5 constants: random valid members (for programs) and exhaustive families (C11)."""
import itertools

ISUFFIX_BASE = ["", "u", "l", "ll", "ul", "ull", "lu", "llu", "z", "uz", "zu", "wb", "uwb", "i64", "ui64"]


def case_variants(s):
    """all spellings where each of the suffix parts (u | l | ll | z | wb | i64) is wholly lower or upper"""
    parts = []
    i = 0
    while i < len(s):
        for p in ("i64", "ll", "wb", "u", "l", "z"):
            if s.startswith(p, i):
                parts.append(p)
                i += len(p)
                break
        else:
            raise ValueError(s)
    outs = set()
    for mask in itertools.product((0, 1), repeat=len(parts)):
        outs.add("".join(p.upper() if m else p for p, m in zip(parts, mask)))
    return sorted(outs)


ISUFFIXES = sorted({v for s in ISUFFIX_BASE for v in case_variants(s)} | {""})
FSUFFIXES = ["", "f", "F", "l", "L"]   # the C standard ones; 'd'/'D' are the listed extension
FSUFFIXES_EXT = FSUFFIXES + ["d", "D"]
CPREFIXES = ["", "L", "u", "U", "u8"]
SIMPLE_ESCAPES = ["\\'", '\\"', "\\?", "\\\\", "\\a", "\\b", "\\f", "\\n", "\\r", "\\t", "\\v"]

DEC = "0123456789"
HEX = "0123456789abcdefABCDEF"


def _digs(d, alphabet, lo, hi):
    return "".join(d.choice(alphabet) for _ in range(d.int(lo, hi)))


def valid_numeric(d):
    """-> (family, text)"""
    k = d.weighted([(4, "dec"), (3, "oct"), (5, "hex"), (2, "bin"), (3, "float"), (1, "hexfloat"), (2, "exp")])
    if k == "dec":
        return "dec", d.choice("123456789") + _digs(d, DEC, 0, 6) + d.choice(ISUFFIXES if d.bool(0.4) else [""])
    if k == "oct":
        return "oct", "0" + _digs(d, "01234567", 0, 5) + d.choice(ISUFFIXES if d.bool(0.3) else [""])
    if k == "hex":
        body = _digs(d, HEX, 1, 8)
        suf = d.choice(ISUFFIXES if d.bool(0.3) else [""])
        return "hex:first=" + ("b" if body[0] in "bB" and len(body) > 1 else "x"), "0" + d.choice("xX") + body + suf
    if k == "bin":
        return "bin", "0" + d.choice("bB") + _digs(d, "01", 1, 8) + d.choice(["", "", "u", "U", "ul"])
    if k == "float":
        form = d.int(0, 2)
        if form == 0:
            body = _digs(d, DEC, 1, 4) + "." + _digs(d, DEC, 1, 4)
        elif form == 1:
            body = "." + _digs(d, DEC, 1, 4)
        else:
            body = _digs(d, DEC, 1, 4) + "."
        exp = ""
        if d.bool(0.3):
            exp = d.choice("eE") + d.choice(["", "+", "-"]) + _digs(d, DEC, 1, 2)
        return "float", body + exp + d.choice(FSUFFIXES)
    if k == "exp":
        return "float-exp", _digs(d, DEC, 1, 3) + d.choice("eE") + d.choice(["", "+", "-"]) + _digs(d, DEC, 1, 2) + d.choice(FSUFFIXES)
    form = d.int(0, 1)
    body = _digs(d, HEX, 1, 3) + ("." + _digs(d, HEX, 1, 3) if form else "")
    return "hexfloat", "0" + d.choice("xX") + body + d.choice("pP") + d.choice(["", "+", "-"]) + _digs(d, DEC, 1, 2) + d.choice(FSUFFIXES)


CCHARS = "abcxyzABCXYZ0189 !#$%&()*+,-./:;<=>@[]^_`{|}~"


def valid_char(d):
    k = d.weighted([(6, "plain"), (3, "simple"), (2, "oct"), (2, "hex"), (1, "quote")])
    pre = d.weighted([(12, ""), (1, "L"), (1, "u"), (1, "U"), (1, "u8")])
    if k == "plain":
        c = d.choice(CCHARS)
    elif k == "simple":
        c = d.choice(SIMPLE_ESCAPES)
    elif k == "oct":
        c = "\\" + _digs(d, "01234567", 1, 3)
    elif k == "hex":
        c = "\\x" + _digs(d, HEX, 1, 2)
    else:
        c = '"'
    return pre + "'" + c + "'"


SCHARS = "abcdefghijklmnopqrstuvwxyzABCXYZ0123456789 !#$%&'()*+,-./:;<=>@[]^_`{|}~"


def valid_string(d, maxlen=12):
    pre = d.weighted([(14, ""), (1, "L"), (1, "u"), (1, "U"), (1, "u8")])
    out = ""
    for _ in range(d.int(0, maxlen)):
        r = d.int(0, 11)
        if r < 9:
            c = d.choice(SCHARS)
            if c == "?" and out.endswith("?"):
                c = "q"
            out += c
        elif r == 9:
            out += d.choice(SIMPLE_ESCAPES)
        elif r == 10:
            out += "\\" + _digs(d, "01234567", 1, 3)
        else:
            # a hex escape must not be followed by a hex digit (it would extend the escape)
            out += "\\x" + _digs(d, HEX, 1, 2) + d.choice(" ghxyz.,")
    return pre + '"' + out + '"'
