"""C18 — diagnostics do not depend on how identifiers are spelled (DESIGN §4.18)."""
import time

from .. import adapters, core, family, prog
from ..draw import composite

RULE = ("file of the conforming/violating families x consistent, injective, class- and length-preserving renaming of its user identifiers "
        "(prefixes g_/s_/t_/u_/e_/ft_ kept, lower->lower, upper->upper, digit->digit, never a keyword or special name); oracle: status and "
        "diagnostics (level, code, line, column, order) identical; non-trivial = >=3 identifiers changed, >=1 in a declaration and >=1 in an "
        "expression; distinct by SHA-1 of (original text, renamed text)")

LOW = "abcdefghijklmnopqrstuvwxyz"
UP = LOW.upper()
DIG = "0123456789"
PREFIXES = ("g_", "s_", "t_", "u_", "e_", "ft_")
STD_NAMES = {"size_t", "ssize_t", "NULL", "main"}


def renamable(x):
    if x.k == "id":
        return not ({"guard"} & set(x.tags)) and x.t not in STD_NAMES
    if x.k == "type":
        return x.t.startswith("t_")
    return False


SPECIAL_WORDS = ["environ", "main", "defined", "attribute", "sizeof", "typedef", "struct", "static", "return", "include", "define",
                 "ifndef", "endif", "null", "true", "false", "bool", "errno", "stdin", "argv", "argc", "size_t", "ft", "inline", "restrict",
                 "if", "ifdef", "else", "elif", "undef", "pragma", "error", "line", "while", "for", "do", "int", "char", "void", "goto", "case", "enum", "union", "long"]
_BY_LEN = {}
for _w in SPECIAL_WORDS:
    for _i in range(len(_w)):
        for _j in range(_i + 1, len(_w) + 1):
            _BY_LEN.setdefault(_j - _i, set()).add(_w[_i:_j])
_BY_LEN = {k: sorted(v) for k, v in _BY_LEN.items()}
# names the tool's rules mention literally (read off the rule sources; used to aim the generator, not as an oracle)
TOOL_WORDS = ["environ", "main", "defined", "attribute", "ifndef", "ifdef", "endif", "define", "include", "elif", "else", "undef", "pragma", "error"]
_TOOL_BY_LEN = {}
for _w in TOOL_WORDS:
    for _i in range(len(_w)):
        for _j in range(_i + 1, len(_w) + 1):
            _TOOL_BY_LEN.setdefault(_j - _i, set()).add(_w[_i:_j])
_TOOL_BY_LEN = {k: sorted(v) for k, v in _TOOL_BY_LEN.items()}


_PREFIX_BY_LEN = {}
for _w in TOOL_WORDS + ["if", "ifs", "iface", "sizeof", "return", "static", "struct", "typedef", "while", "const", "unsigned", "size_t"]:
    for _j in range(1, len(_w) + 1):
        _PREFIX_BY_LEN.setdefault(_j, set()).add(_w[:_j])
    for _j in range(len(_w) + 1, len(_w) + 4):
        _PREFIX_BY_LEN.setdefault(_j, set()).add(_w + "xyz"[:_j - len(_w)])     # the word followed by something
_PREFIX_BY_LEN = {k: sorted(v) for k, v in _PREFIX_BY_LEN.items()}


WHOLE_WORDS = ["TAB", "SPACE", "NEWLINE", "COMMA", "COLON", "DOT", "NOT", "AND", "OR", "INT", "CHAR", "VOID", "LONG", "IDENTIFIER", "CONSTANT", "STRING", "HASH",
               "PLUS", "MINUS", "MULT", "DIV", "MODULO", "ASSIGN", "EQUALS", "PTR", "INC", "DEC", "LBRACE", "RBRACE", "ELLIPSIS", "COMMENT", "NULL", "TRUE", "FALSE",
               "EOF", "ERROR", "IF", "ELSE", "WHILE", "FOR", "DO", "RETURN", "STRUCT", "ENUM", "UNION", "TYPEDEF", "STATIC", "CONST", "SIZEOF", "GOTO", "LABEL", "CASE"]
_WHOLE_BY_LEN = {}
for _w in WHOLE_WORDS:
    _WHOLE_BY_LEN.setdefault(len(_w), []).append(_w)


def near_special(d, body):
    """a same-length, same-class name that is a fragment of a word the tool might treat specially
    (bugs in special-name handling live in a tiny region of the name space: go there on purpose)"""
    which = d.int(0, 3)   # fragments of the tool's words / prefixes of special words (or plus a tail) / fragments of any special word / whole internal names
    if which == 3:
        # names of the tool's own token types and of keywords, in the case class of the identifier (TAB, SPACE, int -> INT ...)
        ws = [w for w in _WHOLE_BY_LEN.get(len(body), []) if "_" not in body]
        if ws and (body.isupper() or body.islower()):
            w = d.choice(ws)
            return w if body.isupper() else w.lower()
        which = 2
    cands = (_TOOL_BY_LEN if which == 0 else _PREFIX_BY_LEN if which == 1 else _BY_LEN).get(len(body), [])
    up = body.isupper()
    ok = [c for c in cands if all((a in LOW or a in UP) == (b in LOW) and (a == "_") == (b == "_") and (a in DIG) == (b in DIG)
                                  for a, b in zip(body, c))]
    if not ok:
        return None
    c = d.choice(ok)
    out = ""
    for a, b in zip(body, c):
        out += b.upper() if a in UP else b
    return out


def rename_one(d, name, taken, bias=0.3):
    pre = ""
    for p in PREFIXES:
        if name.startswith(p) and len(name) > len(p):
            pre = p
            break
    for attempt in range(20):
        out = pre
        if attempt < 2 and d.bool(bias):
            ns = near_special(d, name[len(pre):])
            if ns is not None and pre + ns not in prog.KEYWORDS and pre + ns not in prog.SPECIAL_NAMES and pre + ns not in STD_NAMES \
                    and pre + ns not in taken and (pre or not (ns[:2] in ("g_", "s_", "t_", "u_", "e_") or ns.startswith("ft_"))):
                return pre + ns
        body = name[len(pre):]
        if attempt < 4 and body and all(c in LOW or c in DIG or c == "_" for c in body) and body[0] in LOW and d.bool(0.25):
            # another lower-case snake-case name of the same length: underscores and digits may sit elsewhere, and the name may
            # take (or lose) the shape of a standard typedef name (…_t)
            n = len(body)
            new = d.choice(LOW)
            for _ in range(n - 1):
                new += d.weighted([(8, d.choice(LOW)), (1, d.choice(DIG)), (1, "_")])
            if n >= 3 and d.bool(0.5):
                new = new[:-2] + "_t"
            while "__" in new:
                new = new.replace("__", "a_", 1)
            if new.endswith("_"):
                new = new[:-1] + "a"
            out = pre + new
            if out not in prog.KEYWORDS and out not in prog.SPECIAL_NAMES and out not in STD_NAMES and out not in taken \
                    and (pre or not (out[:2] in ("g_", "s_", "t_", "u_", "e_") or out.startswith("ft_"))):
                return out
            out = pre
        if attempt < 4 and not pre and len(body) >= 3 and body[0] in UP + "_" and all(c in UP or c in DIG or c == "_" for c in body) and d.bool(0.3):
            # another upper-case name of the same length: underscores may sit elsewhere, also in front (`_BUF_MAX` <-> `XBUF_MAX`)
            new = d.weighted([(3, d.choice(UP)), (2, "_")])
            for _ in range(len(body) - 2):
                new += d.weighted([(8, d.choice(UP)), (1, d.choice(DIG)), (1, "_")])
            new += d.choice(UP)
            while "__" in new:
                new = new.replace("__", "_A", 1)
            if new not in prog.KEYWORDS and new not in prog.SPECIAL_NAMES and new not in STD_NAMES and new not in taken and any(c in UP for c in new):
                return new
        for c in name[len(pre):]:
            if c in LOW:
                out += d.choice(LOW)
            elif c in UP:
                out += d.choice(UP)
            elif c in DIG:
                out += d.choice(DIG)
            else:
                out += c
        if out in prog.KEYWORDS or out in prog.SPECIAL_NAMES or out in STD_NAMES or out in taken:
            continue
        if not pre and (out[:2] in ("g_", "s_", "t_", "u_", "e_") or out.startswith("ft_")):
            continue   # would change the naming class
        return out
    return name


def renaming(d, p, bias=0.3):
    names = []
    fixed = set()
    for ln in p.lines:
        for x in ln.lex:
            if x.k in ("id", "type", "kw"):
                if renamable(x):
                    if x.t not in names:
                        names.append(x.t)
                else:
                    fixed.add(x.t)
    names = [n for n in names if n not in fixed]
    taken = set(fixed) | set(names)
    mapping = {}
    for n in names:
        new = rename_one(d, n, taken, bias)
        mapping[n] = new
        taken.add(new)
    return mapping


def apply_renaming(p, mapping):
    q = p.copy()
    for ln in q.lines:
        for x in ln.lex:
            if x.k in ("id", "type") and renamable(x) and x.t in mapping:
                x.t = mapping[x.t]
    return q


@composite
def case(d):
    k = d.int(0, 11)
    k = {10: 0, 11: 3}.get(k, k)
    if k == 0:    # a badly named global (the naming rules are where identifier spelling matters most)
        p = family.member_of(d, violating=1.0, ftype="c", opts={"force": ("global",)}, only=("D12",))
    elif k == 2:  # an operator glued to a parenthesised identifier (is it a cast? that must not depend on how the name is spelled)
        p = family.member_of(d, violating=1.0, ftype="c", only=("O12",))
    elif k == 3:  # a function-like macro that stringifies / pastes its parameter (the parameter is a user identifier next to '#')
        p = family.member_of(d, violating=1.0, ftype="h" if d.bool(0.7) else "c", opts={"force": ("define",)}, only=("P02b",))
    elif k == 1:  # a badly named macro
        p = family.member_of(d, violating=1.0, opts={"force": ("define",)}, only=("P01",))
    else:
        p = family.member_of(d, prefer=("D11", "D12", "F03", "P01", "T06", "T07", "T08", "T09", "D07", "D09"), opts={"decorate": True})
    return p, renaming(d, p, 0.8 if k <= 3 else 0.3)


def compare(camp, name, a_text, b_text, extra, relation="C18"):
    ra = adapters.analyse(name, a_text)
    rb = adapters.analyse(name, b_text)
    fa, fb = family.diag_list(ra), family.diag_list(rb)
    if fa["status"] == "CRASH" and fb["status"] == "CRASH":
        return ra, rb, True
    if fa["status"] == "FATAL" and fb["status"] == "FATAL":
        return ra, rb, True   # messages quote token text, which legitimately differs
    if fa != fb:
        sa = set(map(tuple, fa["diags"]))
        sb = set(map(tuple, fb["diags"]))
        diff = sorted(sa ^ sb, key=str)
        code = diff[0][1] if diff else "status:%s/%s" % (fa["status"], fb["status"])
        if callable(relation):
            relation = relation(diff)
        camp.fail("%s|%s" % (relation, code) if "|" not in relation else "%s|%s|%s" % (relation.split("|")[0], code, relation.split("|", 1)[1]), "diagnostics differ: only-in-original %s only-in-transformed %s (status %s/%s)" % (
            sorted(sa - sb, key=str)[:4], sorted(sb - sa, key=str)[:4], fa["status"], fb["status"]),
            dict(extra, name=name, a=a_text, b=b_text))
        return ra, rb, False
    return ra, rb, True


def shard(seed, n):
    camp = core.Campaign()

    def body(v):
        p, mapping = v
        q = apply_renaming(p, mapping)
        changed = [k for k, val in mapping.items() if k != val]
        a, b = p.text, q.text
        in_decl = any(x.t in changed for ln in p.lines if ln.kind in ("decl", "global", "member", "funchead", "proto") for x in ln.lex)
        in_expr = any(x.t in changed for ln in p.lines if ln.kind in ("stmt", "ctrl", "cont") for x in ln.lex)
        camp.case(a + "\0" + b, len(changed) >= 3 and in_decl and (in_expr or p.ftype == "h"))
        camp.count("variant:" + (p.variant[0] if p.variant else "conforming"))
        if len(a) != len(b):
            raise core.HarnessError("renaming changed the length of the text")
        compare(camp, p.name, a, b, {"variant": p.variant, "mapping": mapping})
        if len(camp.samples) < 3 and camp.evaluations % 41 == 1:
            camp.samples.append({"variant": p.variant, "mapping": dict(list(mapping.items())[:8])})

    core.hyp_run(body, case(), seed, n)
    return camp


def replay(pid, case):
    camp = core.Campaign()
    compare(camp, case["name"], case["a"], case["b"], {}, relation=pid)
    return [(k, b["what"]) for k, b in camp.buckets.items()]


def selftest():
    from ..draw import RDraw
    import random
    d = RDraw(random.Random(3))
    assert rename_one(d, "g_abc", set()).startswith("g_")
    n = rename_one(d, "aB1_x", set())
    if not (n[0].islower() and n[1].isupper() and n[2].isdigit() and n[3] == "_" and len(n) == 5):
        raise core.HarnessError("renaming is not class preserving: %r" % n)


def run(pid, tier, seed):
    t0 = time.time()
    selftest()
    shards, n = (16, 300) if tier == "quick" else (16, 4000)
    camp = core.Campaign()
    for name, rc in core.regress_cases(pid):
        for k, what in replay(pid, rc["case"]):
            camp.fail(k, what, rc["case"])
    camp.merge(core.run_shards(shard, [dict(seed=core.seed_of(seed, s, 18), n=n) for s in range(shards)]))
    return core.finish(pid, tier, seed, camp, RULE, t0, replay_fn=replay, assumptions=[
        "names the tool treats specially (keywords, main, environ, defined, __attribute__, size_t-like standard names, the include guard) are never renamed",
    ])
