"""C14 — include-guard validation follows the file name (DESIGN §4.14)."""
import os
import time

from .. import adapters, core, prog
from ..draw import composite
from ..prog import Line, Lx, SP

RULE = ("header base names over [a-z0-9_.] (dots and underscores anywhere) x generated conforming header bodies x guard variants G0..G8 of "
        "DESIGN §4.14; the expected symbol is computed by the harness (upper-case, '.'->'_'); oracle: G0 no HEADER_PROT_* diagnostic; G1..G6 the "
        "listed code present (G5/G6: the stray declaration up to 40 comment lines away from the guard); G7 (no guard at all) some HEADER_PROT_*; G8 (every variant under a .c name) none; G9 (a quarter of the cases: G0 and G1 written to disk under another name and read through a symbolic link carrying the header's name) the same HEADER_PROT_* set as in memory; non-trivial = every "
        "(name, body, variant) triple, distinct by SHA-1 of name+text")

EXPECT = {"G1": "HEADER_PROT_NAME", "G2": "HEADER_PROT_UPPER", "G3a": "HEADER_PROT_NODEF", "G3b": "HEADER_PROT_NODEF", "G4": "HEADER_PROT_MULT",
          "G5": "HEADER_PROT_ALL", "G6": "HEADER_PROT_ALL_AF"}


def gen_name(d):
    s = d.choice("abcdefghijklmnopqrstuvwxyz_")
    for _ in range(d.int(0, 14)):
        s += d.weighted([(20, d.choice("abcdefghijklmnopqrstuvwxyz")), (4, d.choice("0123456789")), (3, "_"), (3, ".")])
    s = s.rstrip(".") or "a"
    while ".." in s:
        s = s.replace("..", ".")
    return s + ".h"


def name_class(n):
    b = n[:-2]
    return "+".join(sorted(c for c, f in (("dots", "." in b), ("digits", any(ch.isdigit() for ch in b)), ("underscore", "_" in b), ("lead_", b.startswith("_"))) if f)) or "plain"


@composite
def case(d):
    name = gen_name(d)
    p = prog.gen_h(d, {"small": True}, name=name)
    p7 = prog.gen_h(d, {"small": True}, name=name, guard=False)
    return p, p7, d.int(0, 10 ** 6)


def guard_lines(p):
    gi = [i for i, ln in enumerate(p.lines) if ln.info.get("guard")]
    return gi[0], gi[1], gi[2]   # ifndef, define, endif


def variant(p, v, salt):
    q = p.copy()
    a, b, e = guard_lines(q)
    sym = prog.guard_symbol(p.name)

    def setsym(line, new):
        for x in q.lines[line].lex:
            if "guard" in x.tags:
                x.t = new
    if v == "G0":
        return q
    if v == "G1":
        new = ["FT_" + sym, sym + "_", sym[:-2] + "_HPP", "X" + sym[1:] if sym[0] != "X" else "Y" + sym[1:]][salt % 4]
        setsym(a, new)
        setsym(b, new)
        return q
    if v == "G2":
        low = sym.lower()
        new = low if salt % 2 == 0 or not any(c.isalpha() for c in sym[1:]) else sym[0] + low[1:]
        if new == sym:
            return None
        setsym(a, new)
        setsym(b, new)
        return q
    if v == "G3a":
        del q.lines[b]
        return q
    if v == "G3b":
        setsym(b, "FT_OTHER_MACRO")
        return q
    if v == "G4":
        q.lines += [Line([], "blank", 0, -1),
                    Line([Lx("#", "hash"), Lx("ifndef", "pp"), SP(), Lx(sym, "id")], "ifndef", 0, -1),
                    Line([Lx("#", "hash"), SP(), Lx("define", "pp"), SP(), Lx(sym, "id")], "define", 0, -1),
                    Line([], "blank", 0, -1),
                    Line([Lx("int", "kw"), Lx("\t", "tab"), Lx("zz_again", "id"), Lx("(", "par"), Lx("void", "kw"), Lx(")", "par"), Lx(";", "semi")], "proto", 0, -1),
                    Line([], "blank", 0, -1),
                    Line([Lx("#", "hash"), Lx("endif", "pp")], "endif", 0, -1)]
        return q
    decl = Line([Lx("int", "kw"), Lx("\t", "tab"), Lx("zz_outside", "id"), Lx("(", "par"), Lx("void", "kw"), Lx(")", "par"), Lx(";", "semi")], "proto", 0, -1)
    # the stray declaration may be far from the guard: a run of comment lines (0, 1, 2, 5, 9, 16 or 40 of them) in between
    nfill = [0, 0, 0, 1, 2, 5, 9, 16, 40][(salt // 7) % 9]
    fill = [Line([Lx("// filler %d" % k if (salt + k) % 3 else "/* filler %d */" % k, "cmt")], "comment", 0, -1) for k in range(nfill)]
    if v == "G5":
        q.lines[a:a] = [decl, Line([], "blank", 0, -1)] + fill
        return q
    if v == "G6":
        q.lines += [Line([], "blank", 0, -1)] + fill + [decl]
        return q
    raise KeyError(v)


def prot(r):
    return sorted({d[1] for d in r.diags if d[1].startswith("HEADER_PROT")})


def check(camp, p, p7, salt):
    ncls = name_class(p.name)
    camp.count("name:" + ncls)
    for v in ("G0", "G1", "G2", "G3a", "G3b", "G4", "G5", "G6", "G7"):
        q = p7 if v == "G7" else variant(p, v, salt)
        if q is None:
            continue
        text = q.text
        for as_c in (False, True):
            name = p.name[:-2] + ".c" if as_c else p.name
            r = adapters.analyse(name, text)
            camp.case(name + "\0" + text, True)
            camp.count(("G8:" if as_c else "") + v)
            got = prot(r)
            case = {"name": name, "text": text, "variant": v, "as_c": as_c}
            if r.status in ("FATAL", "CRASH"):
                if not as_c:
                    camp.fail("C14|%s|%s" % (v, r.status), "%s on guard variant %s: %s" % (r.status, v, r.fatal or r.crash), case)
                continue
            if as_c:
                if got:
                    camp.fail("C14|G8|%s" % got[0], "a .c file got %s (variant %s)" % (got, v), case)
            elif v == "G0":
                if got:
                    camp.fail("C14|G0|%s|name:%s" % (got[0], "dots" if "." in p.name[:-2] else "nodots"), "correct guard %s for %s rejected: %s" % (prog.guard_symbol(p.name), p.name, got), case)
            elif v == "G7":
                if not got:
                    camp.fail("C14|G7|no-guard-accepted", "header with declarations and no include guard: no HEADER_PROT_* diagnostic (status %s)" % r.status, case)
            elif EXPECT[v] not in got:
                camp.fail("C14|%s|missing-%s" % (v, EXPECT[v]), "guard variant %s: expected %s, got %s" % (v, EXPECT[v], got), case)


def via_symlink(name, text, target):
    """the header on disk under `target`, reached through a symbolic link called `name`: the tool reads it itself"""
    with adapters.scratch("nv-c14-") as d:
        adapters.write_tree(d, {"store/" + target: text})
        os.makedirs(os.path.join(d, "inc"))
        link = os.path.join(d, "inc", name)
        os.symlink(os.path.join(d, "store", target), link)
        return adapters.analyse(link, text, from_disk=True)


def check_link(camp, p, salt):
    """G9: the guard follows the name the file was *given* — a link whose target is called something else changes nothing"""
    target = ["blob%d.h" % (salt % 89), "a1b2c3.h", "x" + p.name, p.name[:-2] + ".c"][salt % 4]
    for v in ("G0", "G1"):
        q = variant(p, v, salt)
        if q is None:
            continue
        ref = prot(adapters.analyse(p.name, q.text))
        r = via_symlink(p.name, q.text, target)
        camp.case("link\0" + target + "\0" + p.name + "\0" + q.text, True)
        camp.count("G9:" + v)
        if r.status in ("FATAL", "CRASH") or prot(r) != ref:
            camp.fail("C14|G9|symlink|%s" % v, "%s reached through a link to %s: %s, in memory under its own name: %s" % (p.name, target, r.status if r.status in ("FATAL", "CRASH") else prot(r), ref),
                      {"name": p.name, "text": q.text, "variant": "G9", "as_c": False, "target": target})


def shard(seed, n):
    camp = core.Campaign()

    def body(v):
        p, p7, salt = v
        check(camp, p, p7, salt)
        if salt % 4 == 0:
            check_link(camp, p, salt)
        if len(camp.samples) < 4 and camp.evaluations % 37 <= 17:
            camp.samples.append({"name": p.name, "symbol": prog.guard_symbol(p.name)})

    core.hyp_run(body, case(), seed, n)
    return camp


def replay(pid, case):
    r = adapters.analyse(case["name"], case["text"])
    got = prot(r)
    v = case["variant"]
    if v == "G9":
        r = via_symlink(case["name"], case["text"], case["target"])
        ref = prot(adapters.analyse(case["name"], case["text"]))
        return [] if r.status not in ("FATAL", "CRASH") and prot(r) == ref else [("C14|G9|symlink|%s" % ("G0" if not ref else "G1"), "%s vs %s" % (prot(r), ref))]
    if case["as_c"]:
        return [("C14|G8|%s" % got[0], str(got))] if got else []
    if v == "G0":
        return [("C14|G0|%s|name:%s" % (got[0], "dots" if "." in case["name"][:-2] else "nodots"), str(got))] if got else []
    if v == "G7":
        return [] if got else [("C14|G7|no-guard-accepted", "no HEADER_PROT_*")]
    return [] if EXPECT[v] in got else [("C14|%s|missing-%s" % (v, EXPECT[v]), str(got))]


def run(pid, tier, seed):
    t0 = time.time()
    if prog.guard_symbol("a.b_c.h") != "A_B_C_H":
        raise core.HarnessError("guard symbol self-test failed")
    shards, n = (16, 40) if tier == "quick" else (16, 1000)
    camp = core.Campaign()
    for name, rc in core.regress_cases(pid):
        for k, what in replay(pid, rc["case"]):
            camp.fail(k, what, rc["case"])
    camp.merge(core.run_shards(shard, [dict(seed=core.seed_of(seed, s, 14), n=n) for s in range(shards)]))
    return core.finish(pid, tier, seed, camp, RULE, t0, replay_fn=replay, assumptions=["names starting with a digit are excluded (no valid guard symbol exists for them)"])
