"""C02 — every enforced Norm violation is reported on its line (DESIGN §4.2)."""
import time

from .. import adapters, core, operators, prog
from ..draw import composite

RULE = ("conforming program (DESIGN §4.1) x edit operator of the violation catalogue (DESIGN §4.2) x applicable site "
        "(quick: one site per operator per program - the one whose site class the shard has used least, thorough: one site per (operator, site class) per program); oracle: the "
        "mutated file is status Error and its diagnostics contain (Error, expected code, report line); every 25th variant also through "
        "the CLI: '<name>: Error!' and exit status != 0; precondition: the unmutated program is accepted; non-trivial = every mutated "
        "file of an accepted program, distinct by SHA-1 of the mutated text; coverage lists hits per (operator, site class)")


@composite
def case(d):
    if d.bool(0.35):
        p = prog.gen_h(d, {"force": ("cond-block",)} if d.bool(0.15) else None)
    else:
        # a share of the source files is made to carry the optional sections, so that their site classes are met in every run
        force = d.weighted([(6, ()), (2, ("global",)), (1, ("define", "cond-block")), (1, ("forward-protos",)), (1, ("global", "forward-protos"))])
        p = prog.gen_c(d, {"force": force} if force else None)
    return p, d.int(0, 10 ** 9)


def check_variant(camp, p, o, cls, ap, idx, cli=False):
    q = p.copy()
    try:
        li = ap(q)
    except Exception as e:  # an operator that cannot apply is a harness bug
        raise core.HarnessError("operator %s failed to apply: %r" % (o["id"], e))
    if li is None:
        return
    text = q.text
    r = adapters.analyse(p.name, text)
    key = "C02|%s|%s" % (o["id"], cls)
    camp.case(text, True)
    camp.count("op:" + o["id"])
    hit = any(d[0] == "Error" and d[1] in o["code"] and (li < 0 or d[2] == li + 1) for d in r.diags)
    case = {"name": p.name, "text": text, "op": o["id"], "site_class": cls, "line": li + 1, "expect": list(o["code"]), "origin": "gen"}
    if r.status == "CRASH":
        camp.count("crash(->C05)")
    if not hit or r.status != "Error":
        got = [d[1:] for d in r.diags if d[0] == "Error"][:5]
        camp.fail(key, "%s at a %s site: expected %s on line %d, status %s, Error diagnostics %s%s" % (
            o["id"], cls, "/".join(o["code"]), li + 1, r.status, got, (" fatal: " + r.fatal) if r.fatal else ""), case)
        camp.count("miss")
        return
    camp.count("hit")
    camp.count("hit:%s|%s" % (o["id"], cls))
    for d in r.diags:
        if d[0] == "Error" and d[1] not in o["code"]:
            camp.count("companion:" + d[1])
    if cli:
        camp.count("cli-runs")
        with adapters.scratch() as dname:
            adapters.write_tree(dname, {p.name: text})
            res = adapters.forked_cli([p.name, "--no-colors"], dname)
        files, _ = adapters.parse_humanized(res.out)
        if res.traceback or res.code == 0 or len(files) != 1 or files[0]["verdict"] != "Error":
            camp.fail("C02|cli|" + o["id"], "CLI on a violating file: exit %s, stdout %r" % (res.code, res.out[:200]), dict(case, origin="cli"))


def shard(seed, n, per_class):
    camp = core.Campaign()
    state = {"k": 0, "seen": {}}

    def body(v):
        p, pick = v
        r0 = adapters.analyse(p.name, p.text)
        if r0.status != "OK" or r0.has_error():
            camp.count("skipped:original-not-accepted(->C01)")
            return
        for n_op, o in enumerate(operators.applicable(p)):
            sites = list(o["fn"](p))
            if not sites:
                continue
            if per_class == 0:
                # the site whose class this shard has exercised least so far (ties: by the drawn number), so that rare classes are reached
                start = (pick + 7919 * n_op) % len(sites)
                order = sites[start:] + sites[:start]
                best = min(order, key=lambda sa: state["seen"].get((o["id"], sa[0]), 0))
                state["seen"][(o["id"], best[0])] = state["seen"].get((o["id"], best[0]), 0) + 1
                chosen = [best]
            else:
                seen = {}
                chosen = []
                start = (pick + 7919 * n_op) % len(sites)
                for cls, ap in sites[start:] + sites[:start]:
                    if seen.get(cls, 0) < per_class:
                        seen[cls] = seen.get(cls, 0) + 1
                        chosen.append((cls, ap))
            for cls, ap in chosen:
                state["k"] += 1
                check_variant(camp, p, o, cls, ap, 0, cli=state["k"] % 25 == 0)
        if len(camp.samples) < 2 and state["k"] % 11 == 0:
            camp.samples.append({"program": p.name, "note": "all applicable operators were applied to this program", "text": p.text[:1500]})

    core.hyp_run(body, case(), seed, n)
    return camp


def replay(pid, case):
    r = adapters.analyse(case["name"], case["text"])
    li = case["line"] - 1
    hit = any(d[0] == "Error" and d[1] in case["expect"] and (li < 0 or d[2] == li + 1) for d in r.diags)
    out = []
    if case.get("origin") == "cli":
        with adapters.scratch() as dname:
            adapters.write_tree(dname, {case["name"]: case["text"]})
            res = adapters.forked_cli([case["name"], "--no-colors"], dname)
        if res.traceback or res.code == 0:
            out.append(("C02|cli|" + case["op"], "exit %s" % res.code))
    if not hit or r.status != "Error":
        out.append(("C02|%s|%s" % (case["op"], case["site_class"]), "expected %s on line %d; got status %s %s" % (
            case["expect"], case["line"], r.status, [d[1:] for d in r.diags if d[0] == "Error"][:5])))
    return out


def selftest():
    # the oracle must notice a missing diagnostic and accept a present one (fixtures independent of /repo)
    class R:
        status = "Error"
        diags = [("Error", "SPC_BEFORE_NL", 3, 5)]
    hit = any(d[0] == "Error" and d[1] in ("SPC_BEFORE_NL",) and d[2] == 3 for d in R.diags)
    miss = any(d[0] == "Error" and d[1] in ("SPC_BEFORE_NL",) and d[2] == 4 for d in R.diags)
    if not hit or miss:
        raise core.HarnessError("C02 self-test failed")
    ids = {k for k, o in operators.OPS.items() if not o.get("aux")}
    if len(ids) < 80:
        raise core.HarnessError("operator catalogue shrank: %d" % len(ids))


def run(pid, tier, seed):
    t0 = time.time()
    selftest()
    if tier == "quick":
        shards, n, per_class = 8, 15, 0
    else:
        shards, n, per_class = 16, 120, 1
    camp = core.Campaign()
    for name, rc in core.regress_cases(pid):
        for k, what in replay(pid, rc["case"]):
            camp.fail(k, what, rc["case"])
    camp.merge(core.run_shards(shard, [dict(seed=core.seed_of(seed, s, 2), n=n, per_class=per_class) for s in range(shards)]))
    never = sorted(k for k, o in operators.OPS.items() if not o.get("aux") and not camp.counters.get("op:" + k))
    camp.extra["operators_in_catalogue"] = sum(1 for o in operators.OPS.values() if not o.get("aux"))
    camp.extra["operators_never_applicable_in_this_run"] = never
    camp.extra["distinct_operator_site_classes_hit"] = sum(1 for k in camp.counters if k.startswith("hit:"))
    if tier == "thorough" and never:
        raise core.HarnessError("operators without any site in a thorough run (generator bug): %s" % never)
    return core.finish(pid, tier, seed, camp, RULE, t0, replay_fn=replay, assumptions=[
        "site predicates encode where each rule applies (fixed from the Norm sentence and the rule's documentation, DESIGN §4.2)",
        "only rules the tool enforces are in the catalogue; one violation per file",
    ])
