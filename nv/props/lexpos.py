"""C09 (token positions are true positions) and C10 (tokenization is lossless): DESIGN §4.9/§4.10.

One engine, two oracles; `pid` selects which oracle's failures are reported."""
import time

from .. import core, scan, soup
from ..adapters import lex
from ..draw import composite

RULE = {
    "C09": ("inputs: all strings of length<=k over the 12/24-symbol lexical alphabets (exhaustive) + Hypothesis lexeme "
            "soups; oracle: every token's pos equals the (line, visual column) of its first raw character as found by "
            "the independent alignment scanner, and every BAD_LEXEME diagnostic sits on the skipped character; for generated programs (family members, stacked "
            "variants, lexical fragments) every rule diagnostic points at the true start of a token or column 1 of a line and every lexical "
            "diagnostic inside the literal it reports; "
            "non-trivial = input has a tab off a tab stop, a multi-line token, a splice or a di/trigraph followed by "
            ">=1 more token on the same physical line; distinct by SHA-1 of the input"),
    "C10": ("inputs: as C09; oracle: the alignment scanner lays the token texts over the whole raw input in order under "
            "the three documented normalisations, every uncovered raw character being matched by one BAD_LEXEME "
            "diagnostic; non-trivial = >=3 tokens of >=2 kinds, or a normalisation, or a bad character; distinct by "
            "SHA-1 of the input"),
}


def char_class(c):
    if c is None:
        return "EOF"
    if c.isalpha() or c == "_":
        return "a"
    if c.isdigit():
        return "1"
    return {"\n": "NL", "\t": "TAB", " ": "SP"}.get(c, c if ord(c) < 127 and ord(c) > 32 else "X")


def ctx_classes(raw, i, before=2, after=2):
    out = []
    for k in range(i - before, i + after):
        out.append(char_class(raw[k]) if 0 <= k < len(raw) else "^" if k < 0 else "$")
    return "".join(out)


def features(raw):
    f = set()
    if "\\\n" in raw or "??/\n" in raw:
        f.add("splice")
    if "??" in raw:
        f.add("tri")
    if any(dg in raw for dg in ("<:", ":>", "<%", "%>", "%:")):
        f.add("di")
    if "\t" in raw:
        f.add("tab")
    return f


def c10_key(raw, toks, res):
    """Root-cause signature: the last non-blank token before the point where the token texts stop
    covering the raw input (the culprit), and the class of the raw character that got lost there."""
    ti, i, j = res.get("where", (0, 0, 0))
    if j > 0 and ti < len(toks):
        culprit = "in:" + toks[ti].type
    else:
        k = min(ti, len(toks)) - 1
        while k >= 0 and toks[k].type in ("SPACE", "TAB", "NEWLINE"):
            k -= 1
        culprit = toks[k].type if k >= 0 else "^"
    lost = char_class(raw[i]) if i < len(raw) else "EOF"
    if culprit.startswith("in:"):
        # inside a long token the exact character is an artefact of the search order; describe the
        # raw material of the token instead
        win = raw[max(0, i - j - 6):i + 2]
        feats = sorted(features(win) | ({"bs"} if "\\" in win.replace("\\\n", "") else set()))
        return "C10|%s|with=%s" % (culprit, "+".join(feats) or "-")
    return "C10|after=%s|lost=%s" % (culprit, lost)


def c09_key(raw, toks, res, pos):
    k, tool, true = res["first_bad"]
    prev = toks[k - 1] if k > 0 else None
    ptxt = ""
    if prev is not None and res["starts"][k - 1] is not None and res["starts"][k] is not None:
        ptxt = raw[res["starts"][k - 1]:res["starts"][k]]
    feats = []
    if "\\\n" in ptxt or "??/\n" in ptxt:
        feats.append("splice")
    if "\\\t" in ptxt:
        feats.append("bs-tab")
    elif "\t" in ptxt:
        feats.append("tab")
    if "??" in ptxt:
        feats.append("tri")
    if "\n" in ptxt.replace("\\\n", "").replace("??/\n", ""):
        feats.append("nl")
    if "bs-tab" in feats or "??/\t" in ptxt:
        return "C09|tab-after-backslash-in-literal"
    return "C09|prev=%s|in-prev=%s" % (prev.type if prev else "^", "+".join(feats) or "-")


def nontrivial9(raw):
    # tab off a tab stop / multi-line token / splice / alt spelling, followed by more text on that line
    lines = raw.split("\n")
    if "\\\n" in raw or "??/\n" in raw or "/*" in raw and "\n" in raw:
        return True
    for ln in lines:
        idx = ln.find("\t")
        if idx > 0 and idx % 4 != 0 and len(ln) > idx + 1:
            return True
        if "??" in ln or "<:" in ln or "%>" in ln:
            return True
    return False


def check_one(camp, pid, raw, name="x.c", origin="soup"):
    try:
        toks, f = lex(name, raw)
    except RecursionError:
        camp.case(None)
        camp.count("lexer_exception(->C05)")
        return
    except Exception:
        camp.case(None)
        camp.count("lexer_exception(->C05)")
        return
    bad = [(e.highlights[0].lineno, e.highlights[0].column) for e in f.errors if e.name == "BAD_LEXEME"]
    raw = f.source   # the text the File holds (inline content gets the newline translation a file read in text mode gets)
    res = scan.check(raw, toks, bad)
    kinds = {t.type for t in toks}
    feats = features(raw)
    if pid == "C10":
        nt = (len(toks) >= 3 and len(kinds) >= 2) or bool(feats - {"tab"}) or bool(bad)
        camp.case(raw, nt)
        for ft in feats:
            camp.count("has:" + ft)
        if bad:
            camp.count("has:bad-char")
        if not res["roundtrip"]:
            camp.fail(c10_key(raw, toks, res), res["why"], {"name": name, "text": raw, "origin": origin})
        # blanks and newlines are tokens of their own
        for t in toks:
            if t.type in ("SPACE", "TAB", "NEWLINE") and t.value is not None:
                camp.fail("C10|blank-token-with-value", repr(t), {"name": name, "text": raw, "origin": origin})
    else:
        nt = nontrivial9(raw) and len(toks) >= 2
        camp.case(raw, nt)
        for ft in feats:
            camp.count("has:" + ft)
        if not res["roundtrip"]:
            camp.count("roundtrip-failed(->C10)")
            return
        if res["positions_ok"] is False:
            k, tool, true = res["first_bad"] if res["first_bad"] else (0, None, None)
            if res["first_bad"]:
                camp.fail(c09_key(raw, toks, res, None), "token %d %s reported at %s, true position %s" % (k, toks[k].type, tool, true),
                          {"name": name, "text": raw, "origin": origin})
            else:
                camp.fail("C09|unlocated", "no position-consistent alignment", {"name": name, "text": raw, "origin": origin})
        elif res["bad_ok"] is False:
            camp.fail("C09|tab-after-backslash-in-literal" if ("\\\t" in raw or "??/\t" in raw) else "C09|bad-lexeme-position", "BAD_LEXEME diagnostics at %s, skipped characters at %s" % (res["bad_detail"][1], res["bad_detail"][0]),
                      {"name": name, "text": raw, "origin": origin})


def shard_exhaustive(pid, alphabet, n, lo, hi):
    camp = core.Campaign()
    for idx in range(lo, hi):
        raw = soup.nth_string(alphabet, n, idx)
        check_one(camp, pid, raw, origin="exhaustive")
        if idx == lo:
            camp.samples.append(raw)
    return camp


@composite
def soup_text(d):
    lex_list = soup.soup(d, 1, 30)
    return "".join(t for _, t in lex_list)


def shard_soup(pid, seed, n):
    camp = core.Campaign()

    def body(raw):
        check_one(camp, pid, raw, origin="soup")
        camp.sample(raw, every=97)

    core.hyp_run(body, soup_text(), seed, n)
    return camp


LEXICAL_CODES = {"UNEXPECTED_EOF_CHR", "UNEXPECTED_EOL_CHR", "UNEXPECTED_EOF_MC", "UNEXPECTED_EOF_STR", "EMPTY_CHAR", "CHAR_AS_STRING", "INVALID_SUFFIX",
                 "BAD_FLOAT_SUFFIX", "INVALID_BIN_INT", "INVALID_OCT_INT", "INVALID_HEX_INT", "MAXIMAL_MUNCH", "NO_HEX_DIGITS", "UNKNOWN_ESCAPE", "BAD_EXPONENT",
                 "MULTIPLE_DOTS", "MULTIPLE_X", "BAD_LEXEME"}


def diag_positions(camp, name, text, variant=None):
    """C09 (iii): every rule diagnostic points at the true start of a token or at column 1 of an existing line;
    every lexical diagnostic points inside the literal it reports (or at the bad character)."""
    from .. import adapters
    r = adapters.analyse(name, text, keep_tokens=True)
    if r.status == "CRASH" or r.tokens is None:
        camp.count("crash(->C05)")
        return
    toks = r.tokens
    bad = [(e.highlights[0].lineno, e.highlights[0].column) for e in r.errors if e.name == "BAD_LEXEME"]
    text = text.replace("\r\n", "\n").replace("\r", "\n")
    res = scan.check(text, toks, bad)
    camp.case("D\0" + text, len(r.diags) >= 1)
    camp.count("programs-with-diagnostic-positions-checked")
    if not res["roundtrip"] or not res["positions_ok"]:
        camp.count("token-positions-wrong(reported-by-the-token-part)")
        return
    pos = scan.positions(text)
    starts = res["starts"]
    token_starts = {tuple(t.pos) for t in toks}
    literal_pos = set(bad)
    for k, t in enumerate(toks):
        if t.type in ("CONSTANT", "CHAR_CONST", "STRING", "COMMENT", "MULT_COMMENT") and starts[k] is not None:
            end = starts[k + 1] if k + 1 < len(toks) and starts[k + 1] is not None else len(text)
            for off in range(starts[k], end + 1):
                if off < len(pos):
                    literal_pos.add(pos[off])
    nl = text.count("\n") + (0 if text.endswith("\n") or not text else 1)
    for e in r.errors:
        h = e.highlights[0]
        p = (h.lineno, h.column)
        if e.name in LEXICAL_CODES:
            if p not in literal_pos:
                camp.fail("C09|diagnostic-position|lexical|%s" % e.name, "%s points at %s, outside the literal it reports" % (e.name, p),
                          {"name": name, "text": text, "origin": "program", "variant": variant})
        elif p not in token_starts and not (p[1] == 1 and 1 <= p[0] <= max(nl, 1)):
            camp.fail("C09|diagnostic-position|rule|%s" % e.name, "%s points at %s, which is neither the start of a token nor column 1 of a line" % (e.name, p),
                      {"name": name, "text": text, "origin": "program", "variant": variant})


def shard_programs(seed, n):
    from .. import family, operators
    from ..props import c08
    camp = core.Campaign()

    def body(files):
        for name, text, kind in files:
            diag_positions(camp, name, text, kind)

    core.hyp_run(body, c08.report_case(), seed, n)
    return camp


def replay(pid, case):
    if case.get("origin") == "program":
        camp = core.Campaign()
        diag_positions(camp, case["name"], case["text"])
        return [(k, b["what"]) for k, b in camp.buckets.items()]
    camp = core.Campaign()
    check_one(camp, pid, case["text"], case.get("name", "x.c"), "replay")
    return [(k, b["what"]) for k, b in camp.buckets.items()]


def fuzz(camp, pid, seconds, seed):
    """coverage-guided campaign on the tokenizer with this property's oracle inside the target (thorough tier)"""
    import os
    import subprocess
    import sys
    from .. import adapters
    deps = os.path.join(core.VERIF, ".deps")
    if not os.path.isdir(os.path.join(deps, "atheris")):
        camp.extra["libfuzzer"] = "skipped: atheris is not installed in /verif/.deps"
        return
    stats = {}
    for corpus in ("seeded", "empty"):
        with adapters.scratch() as dname:
            cdir = os.path.join(dname, "corpus")
            adir = os.path.join(dname, "artifacts")
            os.makedirs(cdir)
            os.makedirs(adir)
            if corpus == "seeded":
                for n, t in enumerate(["int\ta = 0x1f;\n", "/* c\\\n\td */ x\n", "\"s\\n\" 'c' ??= <: %>\n", "a\t\tb // c\n"]):
                    open(os.path.join(cdir, "s%d" % n), "w").write(t)
            env = dict(os.environ)
            env["PYTHONPATH"] = os.pathsep.join([core.REPO, core.VERIF, deps])
            env["NV_FUZZ_ORACLE"] = pid
            cmd = [sys.executable, "-B", os.path.join(core.VERIF, "fuzz", "target.py"), "lexer", cdir, "-max_total_time=%d" % seconds, "-seed=%d" % (seed or 1),
                   "-max_len=120", "-timeout=30", "-dict=" + os.path.join(core.VERIF, "fuzz", "c.dict"), "-artifact_prefix=" + adir + "/", "-print_final_stats=1"]
            try:
                p = subprocess.run(cmd, capture_output=True, env=env, timeout=seconds + 120)
                tail = p.stderr.decode("utf-8", "replace")
            except subprocess.TimeoutExpired:
                tail = "TIMEOUT"
            execs = [l for l in tail.split("\n") if "stat::number_of_executed_units" in l]
            stats[corpus] = execs[0].split(":")[-1].strip() if execs else tail[-200:]
            for fn in sorted(os.listdir(adir)):
                data = open(os.path.join(adir, fn), "rb").read()
                try:
                    text = data.decode("utf-8")
                except UnicodeDecodeError:
                    text = data.decode("latin-1")
                camp.count("fuzz-artifacts-replayed")
                check_one(camp, pid, text, origin="libfuzzer")
    camp.extra["libfuzzer_executions"] = stats


def selftest(pid):
    """The oracle must accept a faithful token list and reject a damaged one (independent of /repo)."""
    class T:
        def __init__(self, type, pos, value=None):
            self.type, self.pos, self.value = type, pos, value
    raw = "a\t=\\\n1;"
    good = [T("IDENTIFIER", (1, 1), "a"), T("TAB", (1, 2)), T("ASSIGN", (1, 5)), T("CONSTANT", (2, 1), "1"), T("SEMI_COLON", (2, 2))]
    r = scan.check(raw, good, [])
    if not (r["roundtrip"] and r["positions_ok"]):
        raise core.HarnessError("scanner self-test: faithful tokens rejected: %r" % r)
    lost = good[:1] + good[2:]
    if scan.check(raw, lost, [])["roundtrip"]:
        raise core.HarnessError("scanner self-test: lost token accepted")
    moved = [T("IDENTIFIER", (1, 1), "a"), T("TAB", (1, 2)), T("ASSIGN", (1, 3)), T("CONSTANT", (2, 1), "1"), T("SEMI_COLON", (2, 2))]
    if scan.check(raw, moved, [])["positions_ok"] is not False:
        raise core.HarnessError("scanner self-test: wrong column accepted")


def run(pid, tier, seed):
    t0 = time.time()
    selftest(pid)
    jobs = []
    if tier == "quick":
        plan = [(soup.ALPHA24, 4), (soup.ALPHA12, 5)]
        nsoup, sshards = 600, 8
    else:
        plan = [(soup.ALPHA24, 5), (soup.ALPHA12, 6)]
        nsoup, sshards = 20000, 16
    sizes = {}
    for alpha, k in plan:
        for n in range(1, k + 1):
            total = len(alpha) ** n
            sizes["|A|=%d,len=%d" % (len(alpha), n)] = total
            chunk = max(1, -(-total // 32))
            for lo in range(0, total, chunk):
                jobs.append((shard_exhaustive, dict(pid=pid, alphabet=alpha, n=n, lo=lo, hi=min(total, lo + chunk))))
    for s in range(sshards):
        jobs.append((shard_soup, dict(pid=pid, seed=core.seed_of(seed, s, 9), n=nsoup)))
    if pid == "C09":
        for s in range(8):
            jobs.append((shard_programs, dict(seed=core.seed_of(seed, 40 + s, 9), n=25 if tier == "quick" else 600)))
    camp = core.Campaign()
    # regression replays first
    for name, rc in core.regress_cases(pid):
        check_one(camp, pid, rc["case"]["text"], rc["case"].get("name", "x.c"), "regress:" + name)
    camp.merge(core.run_shards(_dispatch, [dict(fn=f, kw=kw) for f, kw in jobs]))
    if tier == "thorough":
        fuzz(camp, pid, 90, seed)
    camp.extra["exhaustive_subdomains"] = sizes
    camp.extra["exhaustive"] = False
    camp.extra["exhaustive_note"] = "the listed sub-domains were enumerated completely; the soup part is sampled"
    return core.finish(pid, tier, seed, camp, RULE[pid], t0, replay_fn=replay, assumptions=[
        "visual width model: one column per non-tab character, tab stops every 4 columns (ASCII)",
        "lexer exceptions are counted and left to C05",
    ])


def _dispatch(fn, kw):
    return fn(**kw)
