"""C04 — exit status and per-file verdict agree with the diagnostics (DESIGN §4.4)."""
import itertools
import json
import os
import time

from .. import adapters, core, family, prog
from ..draw import composite, RDraw

RULE = ("sequences over the file classes {clean, notice-only, erroneous, fatally unparsable}: ALL sequences of length 0..k with repetition "
        "(k=3 quick, 4 thorough) + Hypothesis-sampled longer ones + bulk runs of 255 / 256 / 257 (thorough: up to 1024) erroneous files in one directory, each run as explicit path arguments in that order (a repeated class = the "
        "same path mentioned again) and as one directory argument holding distinct copies; class representatives are generated per shard, and the way a class is reached rotates (notice: global-variable notice / unknown escape in a string or character constant / empty \\x / both; error: rule-level / tokenizer-level / rule-level plus tokenizer notice; fatal: garbage statement / #if without argument / garbage tail), the class being decided from the diagnostic levels of an independent in-process run; "
        "oracle (model): one verdict line per mention, OK! iff the file has no Error-level diagnostic (from an independent in-process run), "
        "exit status 0 iff every file is OK; a fatal file is named in an Error! block, exit != 0, files before it keep their verdict lines and "
        "no verdict contradicts its file; empty selection: no traceback, exit 0; a sample is cross-checked against the real CLI; "
        "non-trivial = sequence with >=2 files of >=2 classes; distinct by (class sequence, mode, format)")

CLASSES = ["clean", "notice", "error", "fatal"]


NOTICE_KINDS = ["global", "escape-str", "escape-chr", "hex-empty", "global+escape"]
ERROR_KINDS = ["operator", "lexer-error", "operator+lexer-notice"]
FATAL_KINDS = ["garbage-stmt", "empty-if", "garbage-tail"]


def classify(text, name="x.c"):
    """class of a file from the *levels* of its diagnostics in an independent in-process run (never from the tool's own status word)"""
    r = adapters.analyse(name, text)
    if r.status == "FATAL":
        return "fatal"
    if r.status == "CRASH":
        return None
    if r.has_error():
        return "error"
    if any(x[0] == "Notice" for x in r.diags):
        return "notice"
    return "clean"


def _before_last_brace(text, line):
    lines = text.split("\n")
    ks = [i for i, l in enumerate(lines) if l == "}"]
    if not ks:
        return text       # (a variant without a closing brace on its own line: the caller's classification decides whether it is usable)
    lines.insert(ks[-1], line)
    return "\n".join(lines)


LEX_NOTICE = {"escape-str": '\tft_putstr("a\\qb");', "escape-chr": "\tft_putchar('\\j');", "hex-empty": '\tft_putstr("\\x");'}


def representatives(seed, variant=0):
    """one file per class; the way each class is reached rotates with `variant` (diagnostics raised by rules, by the tokenizer, or both)"""
    import random
    d = RDraw(random.Random(seed))
    nk, ek, fk = NOTICE_KINDS[variant % len(NOTICE_KINDS)], ERROR_KINDS[variant % len(ERROR_KINDS)], FATAL_KINDS[(variant // 2) % len(FATAL_KINDS)]
    reps = {}
    for _ in range(400):
        p = prog.gen_c(d, {"small": True, "force": ("global",)} if "global" in nk and "notice" not in reps else {"small": True})
        c = classify(p.text, p.name)
        if c == "notice" and "notice" not in reps and nk in ("global", "global+escape"):
            t = p.text if nk == "global" else _before_last_brace(p.text, LEX_NOTICE["escape-str"])
            if classify(t) == "notice":
                reps["notice"] = t
            continue
        if c != "clean":
            continue
        if "clean" not in reps:
            reps["clean"] = p.text
        elif "notice" not in reps and nk in LEX_NOTICE:
            t = _before_last_brace(p.text, LEX_NOTICE[nk])
            if classify(t) == "notice":
                reps["notice"] = t
        elif "error" not in reps:
            if ek == "lexer-error":
                t = _before_last_brace(p.text, "\tft_putnbr(%s);" % d.choice(["10uu", "1.5e", "0b12", "089"]))
            else:
                q = family.member_of(d, violating=1.0, ftype="c", opts={"small": True})
                if not q.variant:
                    continue
                t = q.text if ek == "operator" else _before_last_brace(q.text, LEX_NOTICE["escape-str"])
            if classify(t) == "error":
                reps["error"] = t
        elif "fatal" not in reps:
            # the chosen way first, then the others (a tree under test may answer one of them with an internal error: C05's business)
            for fk2 in [fk] + [x for x in FATAL_KINDS if x != fk]:
                lines = p.text.split("\n")
                if fk2 == "garbage-stmt":
                    lines.insert(12, "42;")
                elif fk2 == "empty-if":
                    lines.insert(12, "#if")
                else:
                    lines.append("];")
                t = "\n".join(lines)
                if classify(t) == "fatal":
                    reps["fatal"] = t
                    fk = fk2
                    break
        if len(reps) == 4:
            return reps, (nk, ek, fk)
    raise core.HarnessError("could not build class representatives %s: %s" % ((nk, ek, fk), sorted(reps)))


def expected_error(text):
    r = adapters.analyse("x.c", text)
    if r.status == "FATAL":
        return "fatal"
    return "Error" if r.has_error() else "OK"


def run_sequence(camp, reps, seq, mode, fmt, cli, label="forked"):
    """mode: paths | dir"""
    files = {}
    argv = []
    mentions = []
    if mode == "paths":
        for c in seq:
            n = "%s.c" % c
            files[n] = reps[c]
            argv.append(n)
            mentions.append((n, c))
    else:
        for i, c in enumerate(seq):
            n = "d/f%d_%s.c" % (i, c)
            files[n] = reps[c]
            mentions.append((os.path.basename(n), c))
        files["d/readme.txt"] = "not a C file\n"
        argv.append("d")
    opts = ["--no-colors"] + (["-f", "json"] if fmt == "json" else [])
    with adapters.scratch() as dname:
        adapters.write_tree(dname, files)
        res = cli(argv + opts, dname)
    key_seq = "".join(c[0] for c in seq) or "-"
    case = {"seq": list(seq), "mode": mode, "fmt": fmt, "reps": {c: reps[c] for c in set(seq)}}
    nt = len(seq) >= 2 and len(set(seq)) >= 2
    camp.case("%s|%s|%s|%s" % (key_seq, mode, fmt, label), nt)
    camp.count("len=%d" % len(seq))
    camp.count("mode:%s" % mode)
    if res.traceback:
        camp.fail("C04|traceback|%s" % ("empty-selection" if not seq else "with-files"), "traceback: %s" % res.err.strip().split("\n")[-1][:120], case)
        return res
    has_fatal = "fatal" in seq
    if fmt == "json" and not has_fatal:
        try:
            data = json.loads(res.out.strip().split("\n")[-1]) if res.out.strip() else {"files": []}
        except Exception:
            camp.fail("C04|json-invalid", "stdout %r" % res.out[:200], case)
            return res
        got = [(os.path.basename(f["path"]), "OK" if f["status"] == "OK" else "Error") for f in data["files"]]
        fatal_named = None
    else:
        parsed, other = adapters.parse_humanized(res.out) if fmt != "json" else ([], [])
        if fmt == "json":
            # fatal run in json mode: only the fatal block is plain text
            parsed, other = adapters.parse_humanized("\n".join(l for l in res.out.split("\n") if not l.startswith("{")))
        got = [(os.path.basename(f["name"]), f["verdict"]) for f in parsed if not f["fatal"]]
        fatal_named = [os.path.basename(f["name"]) for f in parsed if f["fatal"]]
        if fmt == "json":
            for l in res.out.split("\n"):
                if l.startswith("{"):
                    try:
                        got += [(os.path.basename(f["path"]), "OK" if f["status"] == "OK" else "Error") for f in json.loads(l)["files"]]
                    except Exception:
                        camp.fail("C04|json-invalid", "stdout %r" % res.out[:200], case)
    exp = [(n, "OK" if c in ("clean", "notice") else "Error") for n, c in mentions]
    if not has_fatal:
        if mode == "paths":
            ok = got == exp
        else:
            ok = sorted(got) == sorted(exp)
        if not ok:
            camp.fail("C04|verdict-lines|%s" % mode, "sequence %s: verdict lines %s, expected %s" % (key_seq, got, exp), case)
        want_exit = 0 if all(v == "OK" for _, v in exp) else 1
        if (res.code == 0) != (want_exit == 0):
            camp.fail("C04|exit-status|%s" % ("all-ok" if want_exit == 0 else "some-error"), "sequence %s (%s): exit status %s, expected %s" % (key_seq, mode, res.code, "0" if want_exit == 0 else "non-zero"), case)
        return res
    # a fatal file is present
    if res.code == 0:
        camp.fail("C04|fatal-exit-0", "sequence %s: a fatally unparsable file but exit status 0" % key_seq, case)
    if not fatal_named or not fatal_named[0].endswith("fatal.c"):
        camp.fail("C04|fatal-not-named", "sequence %s: no Error! block naming the unparsable file; stdout %r" % (key_seq, res.out[:200]), case)
    for n, v in got:
        cls = n.rsplit(".", 1)[0].split("_")[-1]
        if (cls in ("clean", "notice")) != (v == "OK"):
            camp.fail("C04|verdict-contradicts-file", "sequence %s: %s reported %s" % (key_seq, n, v), case)
    if mode == "paths":
        k = seq.index("fatal")
        before = exp[:k]
        if got[:k] != before:
            camp.fail("C04|fatal-suppresses-earlier-verdicts", "sequence %s: files analysed before the unparsable one got verdict lines %s, expected %s" % (key_seq, got[:k], before), case)
    return res


def all_sequences(k):
    for n in range(0, k + 1):
        for seq in itertools.product(CLASSES, repeat=n):
            yield seq


def shard_exhaustive(seed, seqs, fmts, variant=0):
    camp = core.Campaign()
    reps, kinds = representatives(seed, variant)
    for kd in kinds:
        camp.count("class-kind:" + kd)
    for seq in seqs:
        for mode in ("paths", "dir"):
            for fmt in fmts:
                run_sequence(camp, reps, seq, mode, fmt, adapters.forked_cli)
    if seqs:
        camp.samples.append({"sequence": list(seqs[len(seqs) // 2]), "modes": ["paths", "dir"], "formats": list(fmts)})
    return camp


@composite
def long_seq(d):
    return tuple(d.choice(CLASSES) for _ in range(d.int(5, 8))), d.choice(["paths", "dir"]), d.choice(["humanized", "json"])


def shard_sampled(seed, n, variant=0):
    camp = core.Campaign()
    reps, kinds = representatives(seed, variant)
    for kd in kinds:
        camp.count("class-kind:" + kd)

    def body(v):
        seq, mode, fmt = v
        run_sequence(camp, reps, seq, mode, fmt, adapters.forked_cli)

    core.hyp_run(body, long_seq(), seed, n)
    return camp


def shard_bulk(seed, counts, variant=0):
    """large runs: N files with an Error verdict in one directory (exit statuses are 8 bits wide: a count must not leak into them)"""
    camp = core.Campaign()
    reps, kinds = representatives(seed, variant)
    for n in counts:
        files = {"d/e%04d.c" % k: reps["error"] for k in range(n)}
        files["d/ok.c"] = reps["clean"]
        with adapters.scratch() as dname:
            adapters.write_tree(dname, files)
            res = adapters.forked_cli(["d", "--no-colors"], dname, timeout=600)
        camp.case("bulk|%d" % n, True)
        camp.count("bulk-runs")
        case = {"bulk": n, "reps": {"error": reps["error"], "clean": reps["clean"]}}
        if res.traceback:
            camp.fail("C04|traceback|bulk", "traceback: %s" % res.err.strip().split("\n")[-1][:120], case)
            continue
        parsed, _ = adapters.parse_humanized(res.out)
        nerr = sum(1 for f in parsed if f["verdict"] == "Error")
        nok = sum(1 for f in parsed if f["verdict"] == "OK")
        if (nerr, nok) != (n, 1):
            camp.fail("C04|verdict-lines|bulk", "%d erroneous files + 1 clean file in a directory: %d Error! and %d OK! lines" % (n, nerr, nok), case)
        if res.code == 0:
            camp.fail("C04|exit-status|bulk", "%d files with an Error! verdict in one run: exit status 0" % n, case)
    return camp


def cross_check(camp, seed, n):
    """the forked adapter must agree with the real CLI (harness self-validation)"""
    reps, _ = representatives(seed, 1)
    seqs = [(), ("clean",), ("error", "clean"), ("clean", "error"), ("notice",), ("fatal",), ("clean", "fatal"), ("error", "notice", "clean")][:n]
    for seq in seqs:
        for mode in ("paths", "dir"):
            a = run_sequence(core.Campaign(), reps, seq, mode, "humanized", adapters.forked_cli)
            b = run_sequence(camp, reps, seq, mode, "humanized", adapters.real_cli, label="real")
            camp.count("real-cli-runs")
            norm = lambda s: "\n".join(sorted(s.split("\n")))
            if (a.code, norm(a.out), a.traceback) != (b.code, norm(b.out), b.traceback):
                raise core.HarnessError("forked CLI and real CLI disagree on %s/%s: %r vs %r" % (seq, mode, (a.code, a.out[:200]), (b.code, b.out[:200], b.err[-200:])))


def replay(pid, case):
    camp = core.Campaign()
    if "bulk" in case:
        global representatives
        keep = representatives
        representatives = lambda seed, variant=0: (dict(case["reps"], notice=case["reps"]["clean"], fatal=case["reps"]["clean"]), ("replay",) * 3)
        try:
            camp = shard_bulk(0, [case["bulk"]])
        finally:
            representatives = keep
        return [(k, b["what"]) for k, b in camp.buckets.items()]
    reps = dict(case["reps"])
    run_sequence(camp, reps, tuple(case["seq"]), case["mode"], case["fmt"], adapters.forked_cli)
    return [(k, b["what"]) for k, b in camp.buckets.items()]


def run(pid, tier, seed):
    t0 = time.time()
    k, fmts, nsamp, ncross = (3, ("humanized", "json"), 25, 4) if tier == "quick" else (4, ("humanized", "json"), 125, 8)
    seqs = list(all_sequences(k))
    camp = core.Campaign()
    for name, rc in core.regress_cases(pid):
        for kk, what in replay(pid, rc["case"]):
            camp.fail(kk, what, rc["case"])
    cross_check(camp, core.seed_of(seed, 99, 4), ncross)
    nsh = 16
    jobs = [dict(fn=shard_exhaustive, kw=dict(seed=core.seed_of(seed, s % 8, 4), seqs=seqs[s::nsh], fmts=fmts, variant=s)) for s in range(nsh)]
    jobs += [dict(fn=shard_sampled, kw=dict(seed=core.seed_of(seed, 50 + s, 4), n=nsamp, variant=s + 3)) for s in range(8)]
    bulk = [255, 256, 257] if tier == "quick" else [255, 256, 257, 511, 512, 768, 1024]
    jobs += [dict(fn=shard_bulk, kw=dict(seed=core.seed_of(seed, 70 + j, 4), counts=[n], variant=j)) for j, n in enumerate(bulk)]
    camp.merge(core.run_shards(_dispatch, jobs))
    camp.extra["exhaustive_sequences_up_to_length"] = k
    camp.extra["exhaustive_sequence_count"] = len(seqs)
    camp.extra["exhaustive"] = False
    return core.finish(pid, tier, seed, camp, RULE, t0, replay_fn=replay, assumptions=[
        "whether files listed after a fatally unparsable one are still analysed is not constrained",
        "directory discovery order is not assumed",
    ])


def _dispatch(fn, kw):
    return fn(**kw)
