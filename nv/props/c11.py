"""C11 — C literals are classified as C defines them (DESIGN §4.11)."""
import itertools
import time

from .. import core, literals
from ..adapters import lex

RULE = ("valid: every constant derivable from the C11 6.4.4/6.4.5 grammar with digit strings up to a bound (all bases, every first digit, every "
        "suffix spelling incl. the listed extensions, exponent signs, empty integer or fraction part), every escape sequence in character and "
        "string constants with every prefix, each lexed in the right contexts ';' ')' ',' ' ' and after '= '; oracle: exactly one token spanning "
        "the whole constant, no lexical diagnostic.  malformed: every member of the families L1..L10 of DESIGN §4.11 up to the bound, and L11 (a digit the base lacks together with an unknown suffix: the digit code is still required); oracle: "
        "the matching diagnostic, located inside the literal, the literal still one token (L1..L8).  Enumeration is exhaustive over the bound; "
        "non-trivial = every constant (all distinct by construction)")

DEC = "0123456789"
OCT = "01234567"
HEX = "0123456789abcdefABCDEF"
HEXS = "0189afAF"      # digit classes for the longer hexadecimal strings
CONTEXTS = [";", ")", ",", " ", "\n", ""]


def digit_strings(alphabet, lo, hi):
    for n in range(lo, hi + 1):
        for t in itertools.product(alphabet, repeat=n):
            yield "".join(t)


def valid_integers(bound):
    suf_all = literals.ISUFFIXES
    suf_few = ["", "u", "UL", "ll", "LLu", "z", "wb", "i64", "Ui64"]
    for body in digit_strings(DEC, 1, bound):
        if body[0] == "0":
            continue
        for s in (suf_all if len(body) <= 1 else suf_few if len(body) <= 2 else [""]):
            yield "int:dec", body + s
    for body in digit_strings(OCT, 0, bound):
        for s in (suf_all if len(body) <= 1 else [""]):
            yield "int:oct", "0" + body + s
    for x in "xX":
        for body in digit_strings(HEX, 1, 2):
            for s in (suf_all if len(body) == 1 else suf_few):
                yield "int:hex:first=" + ("b" if body[0] in "bB" else "other"), "0" + x + body + s
        for first in HEX:
            for rest in digit_strings(HEXS, 2, max(2, bound - 1)):
                yield "int:hex:first=" + ("b" if first in "bB" else "other"), "0" + x + first + rest
    for b in "bB":
        for body in digit_strings("01", 1, bound + 1):
            for s in ["", "u", "UL", "ll"]:
                yield "int:bin", "0" + b + body + s


FD = "0159"


def valid_floats(bound):
    fs = literals.FSUFFIXES_EXT
    D = list(digit_strings(FD, 1, min(bound, 2)))
    exps = [""] + [e + sg + d for e in "eE" for sg in ("", "+", "-") for d in ("0", "5", "19")]
    for a in D:
        for b in D:
            for e in (exps if len(a) + len(b) <= 2 else ["", "e5", "E-19"]):
                for s in fs:
                    yield "float:D.D", a + "." + b + e + s
    for a in D:
        for e in exps:
            for s in fs:
                yield "float:.D", "." + a + e + s
                yield "float:D.", a + "." + e + s
                if e:
                    yield "float:De", a + e + s
    H = ["0", "1", "9", "a", "F", "1f", "b3", "Bb"]
    pexp = [p + sg + d for p in "pP" for sg in ("", "+", "-") for d in ("0", "3", "12")]
    for x in "xX":
        for a in H:
            for e in pexp:
                for s in ["", "f", "L"]:
                    yield "hexfloat:H", "0" + x + a + e + s
                    yield "hexfloat:H.", "0" + x + a + "." + e + s
                    yield "hexfloat:.H", "0" + x + "." + a + e + s
                    for b in ("8", "c"):
                        yield "hexfloat:H.H", "0" + x + a + "." + b + e + s


LONG_LENGTHS = (8, 16, 31, 32, 33, 40, 64, 100)


def valid_long(seed):
    """constants whose digit strings are long (the grammar puts no bound on them): every structural form x a ladder of lengths"""
    import random
    rnd = random.Random(seed)

    def ds(alphabet, n, first=None):
        return (rnd.choice(first) if first else rnd.choice(alphabet)) + "".join(rnd.choice(alphabet) for _ in range(n - 1))
    for n in LONG_LENGTHS:
        for sfx in ("", "u", "ULL"):
            yield "long:int:dec", ds(DEC, n, "123456789") + sfx
            yield "long:int:oct", "0" + ds(OCT, n) + sfx
            yield "long:int:hex", "0x" + ds(HEX, n) + sfx
            yield "long:int:bin", "0b" + ds("01", n) + sfx
        for sfx in ("", "f", "L"):
            for e in ("", "e5", "E-19", "e+100"):
                yield "long:float:D.D", ds(DEC, n, "123456789") + "." + ds(DEC, 3) + e + sfx
                yield "long:float:D.D", ds(DEC, 2, "123456789") + "." + ds(DEC, n) + e + sfx
                yield "long:float:.D", "." + ds(DEC, n) + e + sfx
                yield "long:float:D.", ds(DEC, n, "123456789") + "." + e + sfx
                if e:
                    yield "long:float:De", ds(DEC, n, "123456789") + e + sfx
            yield "long:float:exp", "1.5e" + ds(DEC, min(n, 40), "123456789") + sfx
        for sfx in ("", "f", "L"):
            for e in ("p0", "P-12", "p+1023"):
                yield "long:hexfloat", "0x" + ds(HEX, n) + e + sfx
                yield "long:hexfloat", "0x1." + ds(HEX, n) + e + sfx
                yield "long:hexfloat", "0x." + ds(HEX, n) + e + sfx


def valid_chars(bound):
    plain = [chr(c) for c in range(32, 127) if chr(c) not in "'\\"]
    for pre in literals.CPREFIXES:
        for c in plain:
            yield "char:plain", pre + "'" + c + "'"
        for e in literals.SIMPLE_ESCAPES:
            yield "char:simple-escape", pre + "'" + e + "'"
        for o in digit_strings(OCT, 1, 3):
            yield "char:octal-escape", pre + "'\\" + o + "'"
        for h in digit_strings(HEX, 1, 2) if pre == "" else list(digit_strings("09afAF", 1, 2)):
            yield "char:hex-escape", pre + "'\\x" + h + "'"
        if pre in ("L", "u", "U"):
            for h in ("123", "1234", "0041", "10FFFF", "0001F600"):
                yield "char:hex-escape-long", pre + "'\\x" + h + "'"
        if pre != "":
            yield "char:ucn", pre + "'\\u00e9'"
            yield "char:ucn", pre + "'\\U0001F600'"


def valid_strings(bound):
    units = ["a", " ", "9", "'", "/*", "//", ";", "\\n", "\\\\", '\\"', "\\0", "\\177", "\\x41", "\\xe9", "?", "%s"]
    for pre in literals.CPREFIXES:
        yield "string:empty", pre + '""'
        for u in units:
            yield "string:1", pre + '"' + u + '"'
        for u in units:
            for v in units:
                if u.startswith("\\x") and v[0] in HEX:
                    continue
                if u.startswith("\\") and u[1:].isdigit() and v[0] in OCT:
                    continue
                if u == "?" and v == "?":
                    continue
                yield "string:2", pre + '"' + u + v + '"'
    yield "string:ucn", '"\\u00e9"'
    yield "string:ucn", 'u8"\\U0001F600"'


def malformed(bound):
    """(family, text, expected code, still-one-token)"""
    for b in "bB":
        for body in digit_strings("0129", 1, min(bound, 3)):
            if any(c in "29" for c in body):
                yield "L1", "0" + b + body, "INVALID_BIN_INT", True
    for body in digit_strings("0789", 1, min(bound, 3)):
        if any(c in "89" for c in body):
            yield "L2", "0" + body, "INVALID_OCT_INT", True
    for t in ("0x1g", "0xg", "0Xfy", "12a", "1a", "9_", "0x1G2", "12ab3"):
        yield "L3", t, ("INVALID_SUFFIX", "INVALID_HEX_INT"), True
    bad_isuf = ["uu", "lul", "lL", "Ll", "llll", "ulL", "q", "_0", "lll", "uU", "zz", "lz", "wbwb", "i32", "ui", "Lul", "LLL"]
    for base in ("1", "42", "017", "0", "0x1f", "0XA", "0b101"):
        for s in bad_isuf:
            yield "L4", base + s, "INVALID_SUFFIX", True
    # two defects in one constant: a digit the base does not have *and* an unknown suffix — the digit is still reported
    for s in bad_isuf + ["ABC", "u", "UL", "ll", "wb"]:
        for b in "bB":
            for body in ("2", "12", "0121", "102", "9", "1009"):
                yield "L11:bin", "0" + b + body + s, "INVALID_BIN_INT", True
        for body in ("8", "78", "789", "128", "09", "0080"):
            yield "L11:oct", "0" + body + s, "INVALID_OCT_INT", True
    bad_fsuf = ["q", "ff", "lf", "fl", "LL", "x", "_f", "fF", "ll"]
    for base in ("1.5", ".5", "1.", "1e5", "1.5e-3", "0x1p3", "0x1.8p1"):
        for s in bad_fsuf:
            yield "L5", base + s, "BAD_FLOAT_SUFFIX", True
    for t in ("1e", "1e+", "1E-", "1.5e", "1.5e-", ".5E", ".5e+", "1.e", "0x1p", "0x1.8p+", "0X1P-", "12e", "1.5ef", "1e+f"):
        yield "L6", t, "BAD_EXPONENT", True
    for t in ("1.2.3", "1..2", "1.5.", "1.5e3.2", ".5.5", "1.2.3.4", "0.0.0"):
        yield "L7", t, "MULTIPLE_DOTS", True
    for pre in literals.CPREFIXES:
        yield "L8", pre + "''", "EMPTY_CHAR", True
        for body in ("", "a", "\\n", "ab"):
            yield "L9:eol", pre + "'" + body + "\n", "UNEXPECTED_EOL_CHR", False
            yield "L9:eof", pre + "'" + body, "UNEXPECTED_EOF_CHR", False
        for body in ("", "a", "a b", "\\n", "\\\""):
            yield "L10", pre + '"' + body, "UNEXPECTED_EOF_STR", False


def check_valid(camp, fam, text):
    for ctx in CONTEXTS:
        for lead in ("", "= "):
            src = lead + text + ctx
            try:
                toks, f = lex("x.c", src)
            except Exception as e:
                camp.case(None)
                camp.fail("C11|%s|exception:%s" % (fam, type(e).__name__), "lexing %r raises %r" % (src, e), {"text": text, "src": src, "family": fam, "expect": "valid"})
                continue
            camp.evaluations += 1
            lit = [t for t in toks if t.type in ("CONSTANT", "CHAR_CONST", "STRING")]
            errs = [(e.level, e.name) for e in f.errors]
            if len(lit) != 1 or lit[0].value != text:
                shape = "split" if len(toks) > (len(lead.split()) + (1 if lead else 0) + 1 + (1 if ctx else 0)) else "wrong-value"
                camp.fail("C11|%s|%s" % (fam, shape), "%r is lexed as %s" % (src, [(t.type, t.value) for t in toks][:6]), {"text": text, "src": src, "family": fam, "expect": "valid"})
            elif errs:
                camp.fail("C11|%s|diagnostic:%s" % (fam, errs[0][1]), "valid constant %r gets %s" % (text, errs), {"text": text, "src": src, "family": fam, "expect": "valid"})
    camp.nontrivial.add(core.sha("v" + text))
    camp.count("valid:" + fam)


def check_malformed(camp, fam, text, code, one_token):
    codes = code if isinstance(code, tuple) else (code,)
    for ctx in ([";", " ", ""] if one_token else [""]):
        src = text + ctx
        try:
            toks, f = lex("x.c", src)
        except Exception as e:
            camp.fail("C11|%s|exception:%s" % (fam, type(e).__name__), "lexing %r raises %r" % (src, e), {"text": text, "src": src, "family": fam, "expect": list(codes)})
            continue
        camp.evaluations += 1
        hits = [e for e in f.errors if e.name in codes]
        casev = {"text": text, "src": src, "family": fam, "expect": list(codes), "one_token": one_token}
        if not hits:
            camp.fail("C11|%s|missing:%s" % (fam, codes[0]), "malformed constant %r: no %s (got %s; tokens %s)" % (text, "/".join(codes), [e.name for e in f.errors], [(t.type, t.value) for t in toks][:4]), casev)
            continue
        h = hits[0].highlights[0]
        if not (h.lineno == 1 and 1 <= h.column <= len(text.split("\n")[0]) + 1):
            camp.fail("C11|%s|diagnostic-outside-literal" % fam, "%s at column %d for %r" % (hits[0].name, h.column, text), casev)
        if one_token:
            lit = [t for t in toks if t.type in ("CONSTANT", "CHAR_CONST", "STRING")]
            if len(lit) != 1 or lit[0].value != text:
                camp.fail("C11|%s|not-one-token" % fam, "%r is lexed as %s" % (src, [(t.type, t.value) for t in toks][:6]), casev)
    camp.nontrivial.add(core.sha("m" + text))
    camp.count("malformed:" + fam.split(":")[0])


def shard(items):
    camp = core.Campaign()
    for it in items:
        if it[0] == "v":
            check_valid(camp, it[1], it[2])
        else:
            check_malformed(camp, it[1], it[2], it[3], it[4])
    if items:
        camp.samples.append({"kind": "valid" if items[0][0] == "v" else "malformed", "family": items[0][1], "text": items[0][2]})
    return camp


def replay(pid, case):
    camp = core.Campaign()
    if case["expect"] == "valid":
        check_valid(camp, case["family"], case["text"])
    else:
        check_malformed(camp, case["family"], case["text"], tuple(case["expect"]), case.get("one_token", True))
    return [(k, b["what"]) for k, b in camp.buckets.items()]


def run(pid, tier, seed):
    t0 = time.time()
    if "LLu" not in literals.ISUFFIXES or "Llu" in literals.ISUFFIXES or len(literals.ISUFFIXES) < 40:
        raise core.HarnessError("suffix table self-test failed")
    bound = 3 if tier == "quick" else 4
    items = []
    for gen in (valid_integers, valid_floats, valid_chars, valid_strings):
        for fam, text in gen(bound):
            items.append(("v", fam, text))
    for fam, text in valid_long(int(seed)):
        items.append(("v", fam, text))
    for fam, text, code, one in malformed(bound):
        items.append(("m", fam, text, code, one))
    seen = set()
    uniq = []
    for it in items:
        if (it[0], it[2]) not in seen:
            seen.add((it[0], it[2]))
            uniq.append(it)
    camp = core.Campaign()
    for name, rc in core.regress_cases(pid):
        for k, what in replay(pid, rc["case"]):
            camp.fail(k, what, rc["case"])
    nsh = 32
    camp.merge(core.run_shards(shard, [dict(items=uniq[s::nsh]) for s in range(nsh)]))
    camp.extra["constants_enumerated"] = len(uniq)
    camp.extra["digit_bound"] = bound
    camp.extra["exhaustive"] = True
    camp.extra["contexts_per_valid_constant"] = len(CONTEXTS) * 2
    fams = sorted({it[1] for it in uniq})
    missing = [f for f in fams if not (camp.counters.get("valid:" + f) or camp.counters.get("malformed:" + f.split(":")[0]))]
    if missing:
        raise core.HarnessError("families without any member: %s" % missing)
    return core.finish(pid, tier, seed, camp, RULE, t0, replay_fn=replay, assumptions=["beyond the bound, digit strings are sampled on a ladder of lengths (8..100) per structural form, digits drawn from the seed", "the enumeration below the bound is complete and seed-independent"])
