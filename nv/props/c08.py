"""C08 — reports are well-formed, ordered and identical in both output formats (DESIGN §4.8)."""
import itertools
import json
import time

from .. import adapters, core, family, operators, soup
from ..draw import composite

RULE = ("files: members of the conforming/violating families, stacked variants (2-4 operators on one file, several diagnostics per line), "
        "files with lexical diagnostics carrying several highlights, bad lexemes and non-ASCII characters, files with a diagnostic at column 90..10 000 followed by diagnostics on later lines, 1-3 files per report; ALL files of <= 3 (thorough: 4) "
        "symbols over a 12-symbol alphabet under a .c and a .h name; oracle: "
        "every diagnostic has a catalogue code with exactly the catalogue text, level Error|Notice, >=1 highlight, 1 <= line <= number of "
        "lines, 1 <= column <= visual width of that line + 1; printed positions ascend; the JSON report parses and lists the same files, verdicts and diagnostics in the same "
        "order as the humanized one (in-process formatters, and through the CLI for a sample); comparator laws (irreflexive, asymmetric, "
        "transitive, consistent with the printed position) over all pairs and triples of a small Error domain; non-trivial = file with >=2 "
        "diagnostics of which >=2 share a line; distinct by SHA-1 of the text")

LEXICAL = ["'a\\q\n", "'ab'", "''", "\"abc", "'a", "'a\n", "0b1221", "0129", "12ab", "1.2.3", "1e", "@", "$", "`", "\\ ", "é", "→x", "/* é */ @",
           "\"é\" 'é'", "0x1g", "1.5q", "0b102 0b12", "'\\q'", "\"\\q\"", "'\\x'", "x = 'abc' + 0b12;", "\t'a\n\t0b12 @\n", "0x1E+n", "0xE-1", "0x1e+0b12", "0xfE-'ab'", "0x1g 0xE+1", "/* unterminated", "\"\\x\" 0x1E-2",
           "0x.p1", "1.5e+ 0xE+2", "0b12 0xE-1 @", "/* page\fbreak\v\n** " + "c" * 84 + "\n*/", "/* a\u2028b\x85c\n** " + "c" * 90 + " */"]


def nlines(text):
    if not text:
        return 0
    return text.count("\n") + (0 if text.endswith("\n") else 1)


def line_width(text, lineno):
    """visual width (tab stops every 4 columns) of the physical line `lineno` (1-based)"""
    lines = text.split("\n")
    if not 1 <= lineno <= len(lines):
        return 0
    col = 0
    for ch in lines[lineno - 1]:
        col = (col // 4 + 1) * 4 if ch == "\t" else col + 1
    return col


@composite
def report_case(d):
    nfiles = d.weighted([(6, 1), (2, 2), (1, 3)])
    files = []
    for k in range(nfiles):
        kind = d.weighted([(6, "member"), (8, "stacked"), (6, "lexical"), (1, "wide")])
        if kind == "member":
            p = family.member_of(d, violating=0.8)
            files.append((p.name, p.text, kind))
        elif kind == "stacked":
            p = family.member_of(d, violating=0.0)
            q = p
            for _ in range(d.int(2, 4)):
                ops = operators.applicable(q)
                o = d.choice(ops)
                if o["id"] in ("F11", "F12", "D10", "P05", "D01", "S11", "T01", "T02", "T03", "T04", "T05", "D08", "S10", "K01", "P10", "S04", "E01", "E03",
                               "E05", "E06", "X02", "P14", "P13", "E02", "E04", "E07", "F06", "S07", "S08", "S12", "S13"):
                    continue   # operators that insert/remove lines invalidate the site map of the next one
                sites = list(o["fn"](q))
                if not sites:
                    continue
                cls, ap = sites[d.int(0, len(sites) - 1)]
                q2 = q.copy()
                try:
                    if ap(q2) is not None:
                        q = q2
                except Exception:
                    pass
            files.append((p.name, q.text, kind))
        elif kind == "wide":
            # diagnostics at very large columns (no limit on the length of a line is documented) followed by others on later lines
            base = family.member_of(d, violating=0.0, ftype="c")
            lines = base.text.split("\n")
            ins = d.int(12, max(12, len(lines) - 1))
            w = d.weighted([(3, d.int(985, 1015)), (2, d.int(1016, 4000)), (1, d.int(9990, 10010)), (1, d.int(90, 984))])
            pad = d.choice(["x" * w, "\t" * (w // 4), "(" * (w // 2) + "1" + ")" * (w // 2), "/* " + "c" * w + " */"])
            wide = "\t" + pad + d.choice(["=1;", "+'ab';", " @", ",0b12;"])
            lines[ins:ins] = [wide] + [d.choice(LEXICAL).rstrip("\n") for _ in range(d.int(1, 2))]
            files.append((base.name, "\n".join(lines), kind))
        else:
            base = family.member_of(d, violating=0.0, ftype="c")
            lines = base.text.split("\n")
            ins = d.int(12, max(12, len(lines) - 1)) if d.bool(0.7) else len(lines) - 1    # (now and then at the very end of the file)
            frag = d.choice(LEXICAL)
            if d.bool(0.4):
                frag += " " + d.choice(LEXICAL)
            lines.insert(ins, frag.rstrip("\n"))
            files.append((base.name, "\n".join(lines), kind))
    return files


def check_files(camp, files, cli=False):
    from norminette.errors import JSONErrorsFormatter, HumanizedErrorsFormatter
    from norminette.norm_error import errors as CATALOGUE
    objs = []
    for name, text, kind in files:
        r = adapters.analyse(name, text)
        camp.count("kind:" + kind)
        if r.status in ("FATAL", "CRASH"):
            camp.case(text, False)
            camp.count("not-analysed-to-a-verdict")
            continue
        errs = list(r.errors)
        lines_with = {}
        for e in errs:
            if e.highlights:
                lines_with[e.highlights[0].lineno] = lines_with.get(e.highlights[0].lineno, 0) + 1
        camp.case(text, len(errs) >= 2 and any(v >= 2 for v in lines_with.values()))
        if any(len(e.highlights) > 1 for e in errs):
            camp.count("files-with-multi-highlight")
        if any(ord(c) > 127 for c in text):
            camp.count("files-with-non-ascii")
        case = {"files": [[name, text]]}
        n = nlines(text)
        prev = None
        for e in errs:
            if e.name not in CATALOGUE:
                camp.fail("C08|not-in-catalogue|%s" % e.name, "diagnostic code %s (text %r) is not in the published catalogue" % (e.name, e.text), case)
            elif e.text != CATALOGUE[e.name]:
                camp.fail("C08|text-differs|%s" % e.name, "text %r differs from the catalogue text %r" % (e.text, CATALOGUE[e.name]), case)
            if e.level not in ("Error", "Notice"):
                camp.fail("C08|level|%s" % e.level, "level %r" % e.level, case)
            if not e.highlights:
                camp.fail("C08|no-highlight|%s" % e.name, "diagnostic without a position", case)
                continue
            h = e.highlights[0]
            if not (isinstance(h.lineno, int) and 1 <= h.lineno <= max(n, 1)) or not (isinstance(h.column, int) and h.column >= 1):
                camp.fail("C08|position-out-of-file|%s" % e.name, "%s at (%s, %s) in a file of %d lines" % (e.name, h.lineno, h.column, n), case)
            elif h.column > line_width(text, h.lineno) + 1:
                camp.fail("C08|position-beyond-line|%s" % e.name, "%s at (%s, %s) but that line is %d columns wide" % (e.name, h.lineno, h.column, line_width(text, h.lineno)), case)
            pos = (h.lineno, h.column)
            if prev is not None and pos < prev[0]:
                multi = len(e.highlights) > 1 or prev[2] > 1
                camp.fail("C08|order|%s" % ("multi-highlight" if multi else "single-highlight"),
                          "%s at %s is listed after %s at %s" % (e.name, pos, prev[1], prev[0]), case)
            prev = (pos, e.name, len(e.highlights))
        objs.append((name, text, r))
    if not objs:
        return
    # formatter agreement, in process
    from norminette.file import File
    fobjs = []
    for name, text, r in objs:
        f = File(name, text)
        f.errors = r.errors
        fobjs.append(f)
    case = {"files": [[n, t] for n, t, _ in objs]}
    try:
        hum = str(HumanizedErrorsFormatter(fobjs, use_colors=False))
        js = str(JSONErrorsFormatter(fobjs))
    except Exception as e:
        camp.fail("C08|formatter-exception|%s" % type(e).__name__, repr(e), case)
        return
    compare_reports(camp, hum, js, case, "inproc")
    if cli:
        camp.count("cli-runs")
        with adapters.scratch() as dname:
            adapters.write_tree(dname, {n: t for n, t, _ in objs})
            names = [n for n, _, _ in objs]
            if len(set(names)) != len(names):
                return
            rh = adapters.forked_cli(names + ["--no-colors"], dname)
            rj = adapters.forked_cli(names + ["-f", "json"], dname)
        if rh.traceback or rj.traceback:
            camp.count("cli-traceback(->C05)")
            return
        compare_reports(camp, rh.out, rj.out, case, "cli")
        if rh.code != rj.code:
            camp.fail("C08|cli-exit-differs", "exit %s (humanized) vs %s (json)" % (rh.code, rj.code), case)


def compare_reports(camp, hum, js, case, how):
    files, other = adapters.parse_humanized(hum)
    try:
        data = json.loads(js.strip().split("\n")[-1])
    except Exception as e:
        camp.fail("C08|json-invalid", "JSON output does not parse: %r" % e, case)
        return
    jf = data.get("files", [])
    if len(jf) != len(files):
        camp.fail("C08|json-file-count", "%d files in JSON, %d in the humanized report" % (len(jf), len(files)), case)
        return
    for a, b in zip(files, jf):
        import os
        if os.path.basename(b.get("path", "")) != a["name"]:
            camp.fail("C08|json-file-order", "file %r vs %r" % (b.get("path"), a["name"]), case)
            return
        if b.get("status") != a["verdict"]:
            camp.fail("C08|json-status", "%s: status %r in JSON, %r humanized" % (a["name"], b.get("status"), a["verdict"]), case)
        ja = []
        for e in b.get("errors", []):
            hs = e.get("highlights") or [{}]
            ja.append((e.get("level"), e.get("name"), hs[0].get("lineno"), hs[0].get("column"), e.get("text")))
        ha = [tuple(d) for d in a["diags"]]
        if ja != ha:
            k = 0
            while k < min(len(ja), len(ha)) and ja[k] == ha[k]:
                k += 1
            what = "count" if len(ja) != len(ha) else "position" if ja[k][:2] == ha[k][:2] else "content"
            camp.fail("C08|json-differs|%s" % what, "%s (%s): diagnostic %d is %s in JSON, %s humanized" % (
                a["name"], how, k, ja[k] if k < len(ja) else None, ha[k] if k < len(ha) else None), case)


def shard(seed, n):
    camp = core.Campaign()
    st = {"i": 0}

    def body(files):
        st["i"] += 1
        check_files(camp, files, cli=st["i"] % 15 == 0)
        if len(camp.samples) < 3 and st["i"] % 19 == 1:
            camp.samples.append([{"name": n_, "kind": k, "tail": t[-160:]} for n_, t, k in files])

    core.hyp_run(body, report_case(), seed, n)
    return camp


def comparator(camp, triples):
    from norminette.errors import Error, Highlight, Errors
    names = ["SPC_BEFORE_NL", "TOO_MANY_TAB"]
    hl = [(l, c) for l in (1, 2) for c in (1, 2)]
    objs = []
    for nm in names:
        for a in hl:
            objs.append((nm, (a,)))
            for b in hl:
                objs.append((nm, (a, b)))
                objs.append((nm, (a, b, "hint")))
    def mk(o):
        nm, hs = o
        hint = len(hs) == 3
        e = Error(nm, "t")
        for k, h in enumerate(hs[:2]):
            e.add_highlight(h[0], h[1], 1, "h" if (hint and k == 1) else None)
        return e
    E = [mk(o) for o in objs]
    pos = [(e.highlights[0].lineno, e.highlights[0].column) for e in E]
    n = len(E)
    lt = [[E[i] < E[j] for j in range(n)] for i in range(n)]
    case = {"comparator": True}
    for i in range(n):
        camp.case(None)
        if lt[i][i]:
            camp.fail("C08|comparator|irreflexive", "%r < itself" % (objs[i],), dict(case, objs=[objs[i]]))
    for i in range(n):
        for j in range(n):
            camp.evaluations += 1
            if lt[i][j] and lt[j][i]:
                camp.fail("C08|comparator|asymmetric", "%r < %r and conversely" % (objs[i], objs[j]), dict(case, objs=[objs[i], objs[j]]))
            if pos[i] < pos[j] and lt[j][i]:
                multi = len(objs[i][1]) > 1 or len(objs[j][1]) > 1
                camp.fail("C08|comparator|position-consistent|%s" % ("multi-highlight" if multi else "single"),
                          "%r is printed at %s before %r at %s but sorts after it" % (objs[i], pos[i], objs[j], pos[j]), dict(case, objs=[objs[i], objs[j]]))
    cnt = 0
    rng = range(n)
    for i in rng:
        for j in rng:
            if not lt[i][j]:
                continue
            for k in rng:
                cnt += 1
                if lt[j][k] and not lt[i][k] and not (i == k):
                    camp.fail("C08|comparator|transitive", "%r < %r < %r but not first < third" % (objs[i], objs[j], objs[k]), dict(case, objs=[objs[i], objs[j], objs[k]]))
        if not triples and i > 12:
            break
    camp.evaluations += cnt
    camp.nontrivial.add(core.sha("comparator-domain-%d" % n))
    camp.extra["comparator_domain"] = {"objects": n, "pairs": n * n, "triples_checked": cnt, "exhaustive_pairs": True, "exhaustive_triples": bool(triples)}
    # sorting permutations of 4-subsets through Errors yields the same printed positions
    sample = E[::7][:8]
    for sub in itertools.combinations(range(len(sample)), 4):
        seqs = set()
        for perm in itertools.permutations(sub):
            errs = Errors()
            for k in perm:
                errs.add(sample[k])
            seqs.add(tuple((e.highlights[0].lineno, e.highlights[0].column) for e in errs))
            camp.evaluations += 1
        if len(seqs) != 1:
            camp.fail("C08|comparator|sort-depends-on-input-order", "4 diagnostics sort to %d different position sequences" % len(seqs), case)


def replay(pid, case):
    camp = core.Campaign()
    if case.get("comparator"):
        comparator(camp, False)
    else:
        check_files(camp, [(n, t, "replay") for n, t in case["files"]], cli=True)
    return [(k, b["what"]) for k, b in camp.buckets.items()]


def shard_tiny(length, lo, hi):
    """every file of `length` symbols over the 12-symbol alphabet, as a source and as a header: reports about the shortest possible files
    (end-of-file paths of the rules) are held to the same well-formedness rules"""
    from .. import soup
    camp = core.Campaign()
    for idx in range(lo, hi):
        t = soup.nth_string(soup.ALPHA12, length, idx)
        for name in ("x.c", "x.h"):
            camp.count("tiny-files")
            check_files(camp, [(name, t, "tiny")])
    return camp


def _dispatch(fn, kw):
    return fn(**kw)


def run(pid, tier, seed):
    t0 = time.time()
    files, _ = adapters.parse_humanized("a.c: Error!\nError: SPC_BEFORE_NL        (line:   3, col:   5):\tSpace before newline\n")
    if files != [{"name": "a.c", "verdict": "Error", "diags": [("Error", "SPC_BEFORE_NL", 3, 5, "Space before newline")], "fatal": None}]:
        raise core.HarnessError("report parser self-test failed: %r" % files)
    shards, n = (16, 80) if tier == "quick" else (16, 2000)
    camp = core.Campaign()
    for name, rc in core.regress_cases(pid):
        for k, what in replay(pid, rc["case"]):
            camp.fail(k, what, rc["case"])
    comparator(camp, tier == "thorough")
    jobs = [dict(fn=shard, kw=dict(seed=core.seed_of(seed, s, 8), n=n)) for s in range(shards)]
    for length in ((1, 2, 3) if tier == "quick" else (1, 2, 3, 4)):
        total = 12 ** length
        chunk = max(1, -(-total // 8))
        jobs += [dict(fn=shard_tiny, kw=dict(length=length, lo=lo, hi=min(total, lo + chunk))) for lo in range(0, total, chunk)]
    camp.merge(core.run_shards(_dispatch, jobs))
    return core.finish(pid, tier, seed, camp, RULE, t0, replay_fn=replay, assumptions=["zero-highlight diagnostics have no producer and are not constructed"])
