"""C12 — alternative spellings and line splices do not change the tokens (DESIGN §4.12)."""
import time

from .. import adapters, core, family, soup
from ..draw import composite
from ..prog import vwidth

RULE = ("base inputs: files of the conforming/violating families (lexeme list known) and Hypothesis soups of complete lexemes; T1: any subset "
        "of the punctuators { } [ ] # respelled as digraph or trigraph and of ^ | ~ (also inside ^= |= ||) as trigraphs; T2: a splice "
        "(backslash-newline or ??/-newline) inserted at any subset of boundaries between two lexemes (never after a // comment); oracle: the "
        "sequence of (token type, value) is unchanged; for T1 restricted to { } [ ] on lines that stay <= 80 columns the multiset of "
        "(level, code, line) of the full analysis is unchanged; non-trivial = >=1 respelling or splice applied; distinct by SHA-1 of the pair")

DI = {"{": "<%", "}": "%>", "[": "<:", "]": ":>", "#": "%:"}
TRI = {"{": "??<", "}": "??>", "[": "??(", "]": "??)", "#": "??=", "^": "??'", "|": "??!", "~": "??-"}


def tokens_of(name, text):
    toks, f = adapters.lex(name, text)
    return [(t.type, t.value) for t in toks]


def respell_text(d, t, which):
    """respell a random subset of the respellable characters of an operator/bracket lexeme"""
    out = ""
    n = 0
    for c in t:
        if c in which and d.bool(0.5):
            if c in DI and d.bool(0.5):
                out += DI[c]
            else:
                out += TRI[c]
            n += 1
        else:
            out += c
    return out, n


def lexemes_of_program(p):
    """flat [(text, kind)] with explicit newlines"""
    out = []
    for ln in p.lines:
        for x in ln.lex:
            out.append((x.t, x.k))
        out.append(("\n", "nl"))
    return out


def transform(d, lex, mode):
    """-> (base text, transformed text, n respelled, n splices, brace_only)"""
    base = "".join(t for t, _ in lex)
    out = []
    nres = nspl = 0
    for i, (t, k) in enumerate(lex):
        new = t
        if mode in ("T1", "T1b", "both") and k in ("op", "un", "brace", "br", "hash") :
            which = "{}[]" if mode == "T1b" else "{}[]#^|~"
            new, n = respell_text(d, t, which)
            nres += n
        out.append(new)
        if mode in ("T2", "both") and i + 1 < len(lex):
            nxt = lex[i + 1][0]
            line_comment = (k == "cmt" and t.lstrip().startswith("//")) or k == "lc"
            # not right after a // comment (C itself would extend it), and not in front of something that is not
            # the start of a token of its own (second half of a multi-line comment line)
            if not line_comment and d.bool(0.12) and t != "" and nxt != "":
                out.append(d.choice(["\\\n", "??/\n"]))
                nspl += 1
    return base, "".join(out), nres, nspl


@composite
def case(d):
    kind = d.weighted([(5, "prog"), (3, "soup")])
    mode = d.weighted([(3, "T1"), (3, "T2"), (2, "T1b"), (2, "both")])
    if kind == "prog":
        p = family.member_of(d, opts={"decorate": True})
        lex = [(t, k) for t, k in lexemes_of_program(p)]
        # inside the program model a multi-line block comment is several lines of one token: no splice inside it
        lex = _guard_comments(lex)
        name = p.name
    else:
        sp = soup.soup(d, 1, 25, profile="clean")
        lex = []
        for k, t in sp:
            kk = {"op": "op", "br": "br", "ident": "id", "kw": "kw", "num": "num", "str": "str", "chr": "chr", "sp": "sp", "tab": "tab", "nl": "nl", "bc": "cmt"}[k]
            if k == "br" and t in "{}":
                kk = "brace"
            if k == "op" and t == "#":
                kk = "hash"
            lex.append((t, kk))
        lex = _separate(lex)
        name = "x.c"
    base, new, nres, nspl = transform(d, lex, mode)
    return name, kind, mode, base, new, nres, nspl


def _guard_comments(lex):
    """merge the lexemes of a multi-line block comment (and the newlines inside it) into one lexeme"""
    out = []
    buf = None
    for t, k in lex:
        if buf is not None:
            buf += t
            if k == "cmt" and t.rstrip().endswith("*/"):
                out.append((buf, "cmt"))
                buf = None
            continue
        if k == "cmt" and t.lstrip().startswith("/*") and not t.rstrip().endswith("*/"):
            buf = t
            continue
        out.append((t, k))
    if buf is not None:
        out.append((buf, "cmt"))
    return out


GLUE = set("+-*/%<>=!&|^.:#?")


def _separate(lex):
    """keep soup lexemes from merging into other tokens: put a space between two lexemes that would lex differently when adjacent"""
    out = []
    for t, k in lex:
        if out:
            pt, pk = out[-1]
            if pt and t and ((pt[-1] in GLUE and t[0] in GLUE) or (pt[-1].isalnum() or pt[-1] in "_.'\"") and (t[0].isalnum() or t[0] in "_.'\"")
                             or (pt[-1] in "/*" and t[0] in "/*") or (pt[-1] in "<%:?" or t[0] in ">%:?")):
                out.append((" ", "sp"))
        out.append((t, k))
    return out


def check(camp, name, kind, mode, base, new, nres, nspl):
    case_d = {"name": name, "kind": kind, "mode": mode, "a": base, "b": new}
    camp.case(base + "\0" + new, nres + nspl >= 1)
    camp.count("mode:" + mode)
    camp.count("base:" + kind)
    camp.count("respelled", nres)
    camp.count("splices", nspl)
    try:
        ta = tokens_of(name, base)
    except Exception:
        camp.count("lexer-exception-on-base(->C05)")
        return
    try:
        tb = tokens_of(name, new)
    except Exception as e:
        camp.fail("C12|exception|%s" % type(e).__name__, "the respelled/spliced text makes the lexer raise %r" % e, case_d)
        return
    if ta != tb:
        k = 0
        while k < min(len(ta), len(tb)) and ta[k] == tb[k]:
            k += 1
        a = ta[k] if k < len(ta) else ("EOF", None)
        b = tb[k] if k < len(tb) else ("EOF", None)
        camp.fail("C12|tokens|%s->%s" % (a[0], b[0]), "token %d: %r in the base text, %r after %s" % (k, a, b, mode), case_d)
        return
    if mode == "T1b" and kind == "prog" and all(vwidth(l) <= 80 for l in new.split("\n")):
        ra = adapters.analyse(name, base)
        rb = adapters.analyse(name, new)
        da = sorted((d[0], d[1], d[2]) for d in ra.diags)
        db = sorted((d[0], d[1], d[2]) for d in rb.diags)
        camp.count("diag-compared")
        if ra.status != rb.status and not (ra.status in ("FATAL", "CRASH") and rb.status == ra.status) or da != db:
            diff = sorted(set(da) ^ set(db), key=str)
            camp.fail("C12|diags|%s" % (diff[0][1] if diff else "status"), "brace/bracket respelling changed the diagnostics: %s (status %s -> %s)" % (diff[:4], ra.status, rb.status), case_d)


def shard(seed, n):
    camp = core.Campaign()

    def body(v):
        check(camp, *v)
        if len(camp.samples) < 4 and camp.evaluations % 31 == 1:
            camp.samples.append({"mode": v[2], "base": v[3][-200:], "transformed": v[4][-260:]})

    core.hyp_run(body, case(), seed, n)
    return camp


def replay(pid, case):
    camp = core.Campaign()
    check(camp, case["name"], case["kind"], case["mode"], case["a"], case["b"], 1, 0)
    return [(k, b["what"]) for k, b in camp.buckets.items()]


def longest_match(camp):
    """every operator pair that forms a longer operator when adjacent: adjacent and separated, plain and respelled"""
    ops = soup.OPERATORS
    for a in ops:
        for b in ops:
            for sep in ("", " "):
                base = "x %s%s%s y" % (a, sep, b)
                for variant in range(3):
                    new = base
                    if variant == 1:
                        new = "".join(TRI.get(c, c) if c in "^|~#" else c for c in base)
                    elif variant == 2:
                        new = base.replace(a + sep + b, a + "\\\n" + sep + b) if sep else base
                    if new == base and variant:
                        continue
                    check(camp, "x.c", "pairs", "pairs", base, new, 1 if new != base else 0, 0)


def run(pid, tier, seed):
    t0 = time.time()
    shards, n = (16, 250) if tier == "quick" else (16, 3000)
    camp = core.Campaign()
    for name, rc in core.regress_cases(pid):
        for k, what in replay(pid, rc["case"]):
            camp.fail(k, what, rc["case"])
    longest_match(camp)
    camp.merge(core.run_shards(shard, [dict(seed=core.seed_of(seed, s, 12), n=n) for s in range(shards)]))
    return core.finish(pid, tier, seed, camp, RULE, t0, replay_fn=replay, assumptions=[
        "splices are inserted only between lexemes of the base text (a splice inside a lexeme is outside the property)",
    ])
