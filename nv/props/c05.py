"""C05 — every input gets an answer: no hang, no internal error (DESIGN §4.5)."""
import os
import signal
import sys
import time
import traceback

from .. import adapters, budget, core, family, soup
from ..draw import composite

RULE = ("(a) tokenizer: ALL strings of length <= k over the 24-symbol lexical alphabet (k=3 quick, 4 thorough), Hypothesis lexeme soups, long "
        "runs of one unmatched character / splice / quote; oracle: list(Lexer(file)) returns - any exception or a step-budget overrun is a "
        "violation.  (b) pipeline, under a .c and a .h name: ALL strings of length <= k over a 12-symbol alphabet and ALL sequences of <= k lexemes of a 20-word C vocabulary as whole files; generated conforming/violating programs cut at lexeme boundaries (prefixes) and "
        "damaged by <= 2 lexeme edits (delete / insert from a C vocabulary / replace / swap); raw-byte files (Latin-1, BOM, NUL, CR-LF) through "
        "the CLI; oracle: a verdict or exactly the controlled fatal error (CParsingError), never another exception, never more primitive steps "
        "than B(n)=2e5+400n^2; CLI sample: exit in {0,1}, no traceback, fatal block on fatal.  (c, thorough) coverage-guided libFuzzer campaigns "
        "(atheris) with the same oracle inside the target.  non-trivial: tokenizer inputs with >=2 lexeme classes; pipeline inputs in which >=1 "
        "statement was matched before the damage; distinct by SHA-1 of the input")

VOCAB = ["(", ")", "{", "}", "[", "]", ";", ",", ":", "?", "=", "*", "&", "#", "if", "else", "while", "return", "struct", "typedef", "enum", "union",
         "sizeof", "static", "const", "int", "void", "x", "42", '"s"', "'c'", "\n", "\t", " ", "->", ".", "...", "++", "//", "/*", "*/", "\\\n", "<", "%:", "do", "for",
         "switch", "case", "goto", "default", "__attribute__", "defined", "NULL", "extern", "inline", "long", "unsigned", "char", "/* c */", " /* c */ ", "// c",
         "#", "include", "define", "<", ">", "<a.h>", '"a.h"', "0x", "1e", "'", '"', "\\", "@"]


def lex_one(camp, text, origin):
    from norminette.file import File
    from norminette.lexer import Lexer
    n = len(text)
    case = {"mode": "lex", "name": "x.c", "text": text, "origin": origin}
    core.note_current("x.c", text)      # (keeps the hard watchdog of the worker armed: a spin inside a C call cannot be counted in steps)
    try:
        with budget.monitor(budget.budget_for(n)) as cnt:
            toks = list(Lexer(File("x.c", text)))
        if cnt.n > camp.extra.get("max_lexer_steps", 0):
            camp.extra["max_lexer_steps"] = cnt.n
        return True
    except budget.StepBudgetExceeded:
        camp.fail("C05|lexer|STEP-BUDGET", "tokenizing %d characters needs more than %d primitive steps" % (n, budget.budget_for(n)), case)
    except RecursionError:
        camp.fail("C05|lexer|RecursionError", "tokenizer recursion on %r..." % text[:30], case)
    except Exception as e:
        sig = adapters.crash_signature(e)
        camp.fail("C05|lexer|%s|%s" % (sig[0], sig[1]), "tokenizer raises %s: %s on %r" % (sig[0], sig[3][:60], text[:40]), case)
    return False


def classes_of(text):
    c = set()
    for ch in text:
        c.add("id" if ch.isalpha() or ch == "_" else "num" if ch.isdigit() else "ws" if ch in " \t\n" else "q" if ch in "'\"" else "bs" if ch == "\\" else "op")
    return c


def shard_lex_exhaustive(n, lo, hi):
    camp = core.Campaign()
    for idx in range(lo, hi):
        t = soup.nth_string(soup.ALPHA24, n, idx)
        camp.case(t, len(classes_of(t)) >= 2)
        lex_one(camp, t, "exhaustive")
    return camp


def shard_pipe_exhaustive(n, lo, hi):
    """every string of length n over the 12-symbol alphabet through the WHOLE pipeline, as a source file and as a header
    (very short files reach the end-of-file paths of the rules: no final newline, a last line of blanks, a lone quote …)"""
    camp = core.Campaign()
    for idx in range(lo, hi):
        t = soup.nth_string(soup.ALPHA12, n, idx)
        for name in ("x.c", "x.h"):
            camp.case(name + "\0" + t, len(classes_of(t)) >= 2)
            camp.count("pipeline-exhaustive")
            pipe_one(camp, name, t, "pipeline-exhaustive")
    return camp


LEX20 = ["int", "x", ";", "(", ")", "{", "}", "*", "=", "1", ",", "\n", "\t", " ", "#", "if", "struct", "[", "]", "return"]


def shard_pipe_lexemes(n, lo, hi):
    """every sequence of n lexemes of a 20-word C vocabulary, glued, as a whole file (.c and .h): the shortest statements and
    fragments of statements, with and without a final newline"""
    camp = core.Campaign()
    for idx in range(lo, hi):
        t = "".join(soup.nth_string(LEX20, n, idx)) if False else "".join(LEX20[(idx // (20 ** k)) % 20] for k in range(n - 1, -1, -1))
        for name in ("x.c", "x.h"):
            camp.case(name + "\0" + t, n >= 2)
            camp.count("pipeline-lexeme-sequences")
            pipe_one(camp, name, t, "lexeme-sequences")
    return camp


@composite
def soup_text(d):
    return "".join(t for _, t in soup.soup(d, 1, 40))


def shard_lex_soup(seed, n):
    camp = core.Campaign()

    def body(t):
        camp.case(t, True)
        lex_one(camp, t, "soup")
        if d_end(t):
            camp.count("ends-inside-token")

    core.hyp_run(body, soup_text(), seed, n)
    return camp


def d_end(t):
    return t.endswith(("\\", "'", '"', "/*", "\\\n", "??/"))


def long_runs(camp, sizes):
    units = soup.BAD_CHARS + ["\\\n", "??/\n", "(", ")", "{", "[", "*", "/", "a", "1", "'", '"', ".", "?", "#", "-", "<", "\t", " ", "\n"]
    for u in units:
        for n in sizes:
            for pre in ("", "'a", '"', "/*", "//", "1", "x = "):
                t = pre + u * n
                camp.case(t, True)
                camp.count("long-run")
                lex_one(camp, t, "long-run")
    camp.samples.append({"long-run": "'a" + "@" * 8 + "... x%d" % sizes[-1]})


# -- pipeline ---------------------------------------------------------------------------------------
class _Alarm(BaseException):
    pass


def pipe_one(camp, name, text, origin, matched_hint=True):
    from norminette.file import File
    from norminette.lexer import Lexer
    from norminette.context import Context
    from norminette.registry import Registry
    from norminette.exceptions import CParsingError
    import contextlib
    import io
    case = {"mode": "pipe", "name": name, "text": text, "origin": origin}
    core.note_current(name, text)
    f = File(name, text)
    buf = io.StringIO()
    ntok = 0
    status = None

    def on_alarm(sig, frm):
        raise _Alarm()
    old = signal.signal(signal.SIGALRM, on_alarm)
    signal.alarm(60)
    try:
        try:
            with contextlib.redirect_stdout(buf):
                with budget.monitor(budget.budget_for(max(len(text) // 2, 50))) as cnt:
                    toks = list(Lexer(f))
                    ntok = len(toks)
                    cnt.limit = budget.budget_for(ntok)
                    ctx = Context(f, toks, 0, None)
                    Registry().run(ctx)
            status = f.errors.status
            list(f.errors)
            if cnt.n > camp.extra.get("max_pipeline_steps", 0):
                camp.extra["max_pipeline_steps"] = cnt.n
                camp.extra["max_pipeline_steps_tokens"] = ntok
        finally:
            signal.alarm(0)
            signal.signal(signal.SIGALRM, old)
    except CParsingError:
        status = "FATAL"
    except budget.StepBudgetExceeded:
        status = "HANG"
        rule = _innermost_rule()
        camp.fail("C05|pipeline|STEP-BUDGET", "analysis of %d tokens needs more than %d primitive steps (hang)" % (ntok, budget.budget_for(ntok)), case)
    except _Alarm:
        status = "HANG"
        camp.count("inconclusive:wall-clock-backstop")
    except RecursionError:
        status = "CRASH"
        camp.fail("C05|pipeline|RecursionError", "RecursionError", case)
    except Exception as e:
        status = "CRASH"
        sig = adapters.crash_signature(e)
        camp.fail("C05|pipeline|%s|%s|%s" % (sig[0], sig[1], sig[2]), "%s in %s (rule %s): %s" % (sig[0], sig[1], sig[2], sig[3][:80]), case)
    camp.count("outcome:" + str(status))
    return status


def _innermost_rule():
    return "?"


def program_lexemes(p):
    out = []
    for ln in p.lines:
        for x in ln.lex:
            out.append(x.t)
        out.append("\n")
    return out


@composite
def damage_case(d):
    p = family.member_of(d, violating=0.3, opts={"small": True, "decorate": True})
    lex = program_lexemes(p)
    body_start = 0
    # skip the 42 header lexemes for most of the damage (12 lines)
    nl = 0
    for i, t in enumerate(lex):
        if t == "\n":
            nl += 1
            if nl == 12:
                body_start = i + 1
                break
    variants = []
    n = len(lex)
    pre_lines = [i for i, ln in enumerate(p.lines) if ln.kind in ("include", "define", "ifndef", "endif")]
    for _ in range(d.int(6, 10)):
        k = d.weighted([(4, "prefix"), (3, "edit1"), (3, "edit2"), (2, "comment-in-directive") if pre_lines else (0, "x"), (1, "comment-anywhere"),
                        (3, "keyword-as-identifier"), (2, "directive-operand") if pre_lines else (0, "y")])
        if k in ("comment-in-directive", "comment-anywhere"):
            # a comment is white space for C: legal between any two tokens, also inside a directive
            q = p.copy()
            li = d.choice(pre_lines) if k == "comment-in-directive" else d.int(12, len(q.lines) - 1)
            lx = q.lines[li].lex
            if not lx:
                continue
            at = d.int(1, len(lx))
            from ..prog import Lx as _Lx
            lx.insert(at, _Lx(d.choice(["/* c */", " /* c */", "/* c */ ", "/**/"]), "cmt"))
            # optionally drop everything after this line (so that nothing later can end a runaway scan)
            if d.bool(0.5):
                del q.lines[li + 1:]
            variants.append((k, q.text))
            continue
        if k in ("keyword-as-identifier", "directive-operand"):
            # token-class confusion: an identifier (or the operand of a directive) spelled like a keyword / another lexeme
            q = p.copy()
            cands = []
            for li, ln in enumerate(q.lines[12:], start=12):
                for kx, x in enumerate(ln.lex):
                    if k == "keyword-as-identifier" and x.k == "id":
                        cands.append((li, kx))
                    elif k == "directive-operand" and ln.kind in ("include", "define", "ifndef", "endif", "ppelse") and kx > 0 and x.k not in ("sp", "hash", "pp"):
                        cands.append((li, kx))
            if not cands:
                continue
            li, kx = cands[d.int(0, len(cands) - 1)]
            word = d.choice(["NULL", "int", "inline", "static", "void", "struct", "sizeof", "if", "return", "const", "typedef", "enum", "char", "extern", "while"]) \
                if k == "keyword-as-identifier" or d.bool() else d.choice(VOCAB)
            q.lines[li].lex[kx].t = word
            variants.append((k, q.text))
            continue
        if k == "prefix":
            cut = d.int(body_start, n)
            variants.append(("prefix", "".join(lex[:cut])))
            continue
        cur = list(lex)
        for _ in range(1 if k == "edit1" else 2):
            pos = d.int(body_start, max(body_start, len(cur) - 1))
            e = d.weighted([(3, "del"), (3, "ins"), (2, "rep"), (1, "swap"), (1, "dup")])
            if e == "del" and cur:
                del cur[pos]
            elif e == "ins":
                cur.insert(pos, d.choice(VOCAB))
            elif e == "rep" and cur:
                cur[pos] = d.choice(VOCAB)
            elif e == "swap" and pos + 1 < len(cur):
                cur[pos], cur[pos + 1] = cur[pos + 1], cur[pos]
            elif e == "dup" and cur:
                cur.insert(pos, cur[pos])
        variants.append((k, "".join(cur)))
    return p.name, variants


def shard_pipe(seed, n, cli_every):
    camp = core.Campaign()
    st = {"i": 0}

    def body(v):
        name, variants = v
        base = name.rsplit(".", 1)[0]
        for kind, text in variants:
            for suffix in (".c", ".h"):
                st["i"] += 1
                nm = base + suffix
                camp.case(nm + "\0" + text, True)
                camp.count("damage:" + kind)
                status = pipe_one(camp, nm, text, kind)
                if cli_every and st["i"] % cli_every == 0 and status in ("OK", "Error", "FATAL"):
                    cli_one(camp, nm, text, status)
        if len(camp.samples) < 3 and st["i"] % 23 <= 2:
            camp.samples.append({"name": name, "damage": variants[0][0], "tail": variants[0][1][-160:]})

    core.hyp_run(body, damage_case(), seed, n)
    return camp


def cli_one(camp, name, content, status, cli=adapters.forked_cli):
    camp.count("cli-runs")
    with adapters.scratch() as dname:
        adapters.write_tree(dname, {name: content})
        res = cli([name, "--no-colors"], dname, timeout=120)
    text = content if isinstance(content, str) else content.decode("latin-1")
    case = {"mode": "cli", "name": name, "text": text, "bytes": isinstance(content, bytes)}
    if res.code == -9:
        camp.count("inconclusive:cli-timeout")
        return
    if res.traceback:
        last = res.err.strip().split("\n")[-1]
        camp.fail("C05|cli|traceback|%s" % last.split(":")[0][:40], "the CLI dies with a traceback: %s" % last[:150], case)
        return
    if res.code not in (0, 1):
        camp.fail("C05|cli|exit=%s" % res.code, "exit status %s" % res.code, case)
    files, other = adapters.parse_humanized(res.out)
    if len(files) != 1:
        camp.fail("C05|cli|no-answer", "neither a verdict nor a fatal block: stdout %r" % res.out[:150], case)
    elif status == "FATAL" and (not files[0]["fatal"] or res.code == 0):
        camp.fail("C05|cli|fatal-not-reported", "in-process fatal, CLI: exit %s stdout %r" % (res.code, res.out[:150]), case)


RAW = [("latin1.c", "// caf\xe9\nint\tg_a;\n".encode("latin-1")), ("bom.c", b"\xef\xbb\xbfint\tg_a;\n"), ("nul.c", b"int\tg_a;\x00\n"),
       ("crlf.c", b"int\tft_a(void)\r\n{\r\n\treturn (0);\r\n}\r\n"), ("latin1.h", "/* \xe0 */\n#ifndef LATIN1_H\n# define LATIN1_H\n#endif\n".encode("latin-1")),
       ("empty.c", b""), ("onlynl.h", b"\n\n"), ("utf8.c", "// café →\nint\tg_a;\n".encode("utf-8")), ("ff.c", b"\xff\xfe\x00\x01")]


def raw_bytes(camp):
    for name, data in RAW:
        camp.case(name + "\0" + data.decode("latin-1"), True)
        camp.count("raw-bytes")
        cli_one(camp, name, data, None)


def replay(pid, case):
    camp = core.Campaign()
    if case["mode"] == "lex":
        lex_one(camp, case["text"], "replay")
    elif case["mode"] == "pipe":
        pipe_one(camp, case["name"], case["text"], "replay")
    else:
        content = case["text"].encode("latin-1") if case.get("bytes") else case["text"]
        cli_one(camp, case["name"], content, None)
    return [(k, b["what"]) for k, b in camp.buckets.items()]


def fuzz(camp, seconds, seed):
    """coverage-guided campaigns through fuzz/targets (atheris); failures are replayed through the oracle above"""
    import subprocess
    import tempfile
    deps = os.path.join(core.VERIF, ".deps")
    if not os.path.isdir(os.path.join(deps, "atheris")):
        camp.extra["libfuzzer"] = "skipped: atheris is not installed in /verif/.deps"
        return
    stats = {}
    for target in ("lexer", "pipeline"):
        for corpus in ("seeded", "empty"):
            with adapters.scratch() as dname:
                cdir = os.path.join(dname, "corpus")
                adir = os.path.join(dname, "artifacts")
                os.makedirs(cdir)
                os.makedirs(adir)
                if corpus == "seeded":
                    src = os.path.join(core.VERIF, "corpus")
                    for fn in sorted(os.listdir(src)) if os.path.isdir(src) else []:
                        with open(os.path.join(src, fn), "rb") as f:
                            open(os.path.join(cdir, fn), "wb").write(f.read())
                env = dict(os.environ)
                env["PYTHONPATH"] = os.pathsep.join([core.REPO, core.VERIF, deps])
                env["NV_FUZZ_ARTIFACTS"] = adir
                cmd = [sys.executable, "-B", os.path.join(core.VERIF, "fuzz", "target.py"), target, cdir, "-max_total_time=%d" % seconds, "-seed=%d" % (seed or 1),
                       "-max_len=400", "-timeout=30", "-dict=" + os.path.join(core.VERIF, "fuzz", "c.dict"), "-artifact_prefix=" + adir + "/", "-print_final_stats=1"]
                try:
                    p = subprocess.run(cmd, capture_output=True, env=env, timeout=seconds + 120)
                    tail = p.stderr.decode("utf-8", "replace")
                except subprocess.TimeoutExpired:
                    tail = "TIMEOUT"
                execs = [l for l in tail.split("\n") if "stat::number_of_executed_units" in l]
                stats["%s/%s" % (target, corpus)] = execs[0].split(":")[-1].strip() if execs else tail[-200:]
                for fn in sorted(os.listdir(adir)):
                    data = open(os.path.join(adir, fn), "rb").read()
                    text = data[1:].decode("utf-8", "replace") if target == "pipeline" else data.decode("utf-8", "replace")
                    camp.case(text, True)
                    camp.count("fuzz-findings-replayed")
                    if target == "lexer":
                        lex_one(camp, text, "libfuzzer")
                    else:
                        pipe_one(camp, "f.h" if data[:1] and data[0] % 2 else "f.c", text, "libfuzzer")
    camp.extra["libfuzzer"] = stats


def _dispatch(fn, kw):
    return fn(**kw)


def shard_long_runs(sizes):
    camp = core.Campaign()
    long_runs(camp, sizes)
    return camp


def shard_raw_bytes():
    camp = core.Campaign()
    raw_bytes(camp)
    return camp


def run(pid, tier, seed):
    t0 = time.time()
    # self-test of the budget monitor: a spinning loop over a monitored method must be stopped
    try:
        from norminette.file import File
        from norminette.lexer import Lexer
        with budget.monitor(1000):
            lx = Lexer(File("x.c", "abc"))
            while True:
                lx.raw_peek()
        raise core.HarnessError("budget self-test: spin not stopped")
    except budget.StepBudgetExceeded:
        pass
    k, nsoup, nprog, cli_every, runs = (3, 250, 10, 40, [50, 500, 2000]) if tier == "quick" else (4, 10000, 150, 200, [50, 500, 2000, 10000])
    camp = core.Campaign()
    for name, rc in core.regress_cases(pid):
        for kk, what in replay(pid, rc["case"]):
            camp.fail(kk, what, rc["case"])
    jobs = [dict(fn=shard_long_runs, kw=dict(sizes=runs)), dict(fn=shard_raw_bytes, kw={})]     # (in workers, like everything that runs the tool)
    sizes = {}
    for n in range(1, k + 1):
        total = 24 ** n
        sizes["len=%d" % n] = total
        chunk = max(1, -(-total // 16))
        for lo in range(0, total, chunk):
            jobs.append(dict(fn=shard_lex_exhaustive, kw=dict(n=n, lo=lo, hi=min(total, lo + chunk))))
    for n in range(1, k + 1):
        total = 12 ** n
        sizes["pipeline len=%d" % n] = total
        chunk = max(1, -(-total // 16))
        for lo in range(0, total, chunk):
            jobs.append(dict(fn=shard_pipe_exhaustive, kw=dict(n=n, lo=lo, hi=min(total, lo + chunk))))
    for n in range(1, k + 1):
        total = 20 ** n
        sizes["pipeline lexemes=%d" % n] = total
        chunk = max(1, -(-total // 16))
        for lo in range(0, total, chunk):
            jobs.append(dict(fn=shard_pipe_lexemes, kw=dict(n=n, lo=lo, hi=min(total, lo + chunk))))
    for s in range(8):
        jobs.append(dict(fn=shard_lex_soup, kw=dict(seed=core.seed_of(seed, s, 5), n=nsoup)))
    for s in range(16):
        jobs.append(dict(fn=shard_pipe, kw=dict(seed=core.seed_of(seed, 20 + s, 5), n=nprog, cli_every=cli_every)))
    camp.merge(core.run_shards(_dispatch, jobs))
    if tier == "thorough":
        fuzz(camp, 120, seed)
    camp.extra["tokenizer_exhaustive_subdomains"] = sizes
    camp.extra["step_budget"] = "B(n) = 200000 + 400 n^2 (n = characters for the tokenizer, tokens for the pipeline)"
    inc = sum(v for kk, v in camp.counters.items() if kk.startswith("inconclusive"))
    if inc > max(3, camp.evaluations // 1000):
        raise core.HarnessError("%d inconclusive cases (wall-clock backstop)" % inc)
    return core.finish(pid, tier, seed, camp, RULE, t0, replay_fn=replay, assumptions=[
        "non-termination is decided by a step budget with measured head-room (max observed counts are in the coverage), the wall clock is only a backstop that yields 'inconclusive'",
        "damage is limited to prefixes and <= 2 lexeme edits",
    ])
