"""C07 — every statement is examined exactly once; nothing is skipped silently (DESIGN §4.7)."""
import time

from .. import adapters, core, family
from ..draw import composite
from ..prog import Line, Lx, TABS

RULE = ("A: files of the conforming/violating families analysed under a test-side monitor of Context.pop_tokens: the pops tile the token "
        "list (each >=1 token, in order, no overlap, no gap, nothing left); for conforming files also: number of matched statements = "
        "number of logical statements of the model, no unrecognised pop, every statement starts at column 1 of a line and ends with a "
        "newline (or the end of input), scope is the file scope after each function and at the end.  B: a self-delimiting unrecognisable "
        "fragment (42; 1.5; \"s\"; 'c'; ]; ); ->; ..;) inserted as a correctly indented line at a statement boundary, or as the last line "
        "with/without ';' and final newline, and behind a complete preprocessor directive on its own line: at a closed boundary the run is fatal (CLI: Error! block naming the file, exit != 0), at an "
        "open boundary the file is at least never OK!; never stray output.  non-trivial A = program with >=1 nested block and >=1 "
        "continuation line; B = every (fragment, boundary) pair; distinct by SHA-1 of the text")

FRAGMENTS = ["42;", "1.5;", '"s";', "'c';", "];", ");", "->;", "..;"]


class Monitor:
    def __init__(self):
        self.pops = []

    def __enter__(self):
        from norminette.context import Context
        self.Context = Context
        self.orig = Context.pop_tokens
        mon = self

        def pop_tokens(ctx, stop):
            toks = ctx.tokens
            mon.pops.append({
                "before": len(toks), "stop": stop,
                "first": (toks[0].type, toks[0].pos) if toks else None,
                "last": (toks[stop - 1].type, toks[stop - 1].pos) if toks and 1 <= stop <= len(toks) else None,
                "scope": ctx.scope.name, "hist": len(ctx.history), "rule": str(ctx.history[-1]) if ctx.history else None,
            })
            return mon.orig(ctx, stop)
        Context.pop_tokens = pop_tokens
        return self

    def __exit__(self, *a):
        self.Context.pop_tokens = self.orig


def expected_statements(p):
    sids = set()
    n = 0
    for ln in p.lines:
        if ln.kind == "stmt" and ln.info.get("stmt") == "empty":
            continue   # the ';' body of a 'while (c)' belongs to the control statement (one instruction)
        if ln.kind == "blank" or ln.kind == "hdr":
            n += 1
        elif ln.sid not in sids:
            sids.add(ln.sid)
            n += 1
    return n


def oracle_a(camp, p, conforming):
    text = p.text
    with Monitor() as mon:
        r = adapters.analyse(p.name, text, keep_tokens=True)
    case = {"name": p.name, "text": text, "variant": getattr(p, "variant", None), "mode": "A"}
    if r.status == "CRASH":
        camp.count("crash(->C05)")
        return
    total = r.ntokens
    pos = 0
    prev_hist = 0
    matched = unrec = 0
    fatal = r.status == "FATAL"
    for k, rec in enumerate(mon.pops):
        if rec["stop"] < 1:
            camp.fail("C07|A|zero-length-statement|%s" % rec["rule"], "pop %d consumes %d tokens (rule %s)" % (k, rec["stop"], rec["rule"]), case)
            break
        if rec["before"] != total - pos:
            camp.fail("C07|A|gap-or-overlap", "pop %d starts with %d tokens left, expected %d" % (k, rec["before"], total - pos), case)
            break
        if rec["stop"] > rec["before"]:
            camp.count("pop-longer-than-the-remaining-tokens(benign)")
        pos += min(rec["stop"], rec["before"])
        if rec["hist"] > prev_hist:
            matched += 1
        else:
            unrec += 1
        prev_hist = rec["hist"]
    else:
        if not fatal and pos != total:
            camp.fail("C07|A|tokens-left", "%d of %d tokens consumed at the end of the run" % (pos, total), case)
    if not conforming or fatal:
        return
    if r.status != "OK" or r.has_error():
        camp.count("conforming-but-rejected(->C01)")   # the structural invariants below are about the input, not about the verdict
    if unrec:
        camp.fail("C07|A|unrecognised-pop-in-conforming-file", "%d tokens were popped as unrecognised" % unrec, case)
    exp = expected_statements(p)
    if matched != exp:
        camp.fail("C07|A|statement-count", "%d statements matched, the model has %d" % (matched, exp), case)
    fclose = {f["close"] + 1 for f in p.funcs}
    for k, rec in enumerate(mon.pops):
        if rec["first"] and rec["first"][1][1] != 1:
            camp.fail("C07|A|statement-starts-mid-line|%s" % rec["rule"], "statement %d (%s) starts at %s" % (k, rec["rule"], rec["first"][1]), case)
            break
        if rec["last"] and rec["last"][0] != "NEWLINE" and rec["before"] != rec["stop"]:
            camp.fail("C07|A|statement-ends-mid-line|%s" % rec["rule"], "statement %d (%s) ends with %s at %s" % (k, rec["rule"], rec["last"][0], rec["last"][1]), case)
            break
        if rec["first"] and rec["first"][1][0] in fclose and rec["scope"] != "GlobalScope":
            camp.fail("C07|A|depth-after-function", "after the closing brace on line %d the scope is %s" % (rec["first"][1][0], rec["scope"]), case)
            break
    if mon.pops and mon.pops[-1]["scope"] != "GlobalScope":
        camp.fail("C07|A|depth-at-end", "scope at the end of the file is %s" % mon.pops[-1]["scope"], case)


def boundaries(p):
    """(index to insert before, indentation depth, closed?, class)"""
    out = []
    for i in range(12, len(p.lines) + 1):
        prev = p.lines[i - 1]
        nxt = p.lines[i] if i < len(p.lines) else None
        if nxt is not None and nxt.kind in ("cont", "pcont"):
            continue   # inside a statement
        if nxt is not None and nxt.kind == "comment" and nxt.sid == prev.sid:
            continue
        closed = True
        j = i - 1
        while j > 0 and p.lines[j].kind == "comment":
            j -= 1          # a comment does not close what the line before it opened
        opener = p.lines[j]
        if opener.kind in ("funchead", "ctrl", "else", "utype_open") or (opener.kind == "cont" and opener.info.get("K") == "K1"):
            closed = False
        if prev.kind == "enumerator" or (nxt is not None and nxt.kind == "enumerator"):
            cls = "enum-block"
        elif prev.kind in ("member",) or (nxt is not None and nxt.kind == "member"):
            cls = "struct-block"
        elif nxt is not None and nxt.fn >= 0 and nxt.kind != "funchead" and not (nxt.kind == "lbrace" and nxt.depth == 0):
            cls = "function@%d" % min(nxt.depth, 3)
        elif prev.fn >= 0 and prev.kind not in ("rbrace",) or (prev.kind == "rbrace" and prev.depth > 0):
            cls = "function@%d" % min(prev.depth, 3)
        else:
            cls = "top"
        if nxt is not None:
            depth = nxt.depth + (0 if nxt.kind not in ("rbrace",) else 1) if nxt.fn >= 0 or nxt.kind in ("member", "enumerator") else 0
            if nxt.kind == "funchead" or (nxt.kind == "lbrace" and nxt.depth == 0):
                depth = 0
        else:
            depth = 0
        out.append((i, depth, closed, cls, j))
    return out


def oracle_b(camp, p, d, per_prog, cli_every, state, avoid_line=None, tag="conforming"):
    bs = boundaries(p)
    if avoid_line is not None:
        pass   # (intra-line operators keep the statement boundaries of the conforming original: every boundary is used)
        # kinds of lines whose neighbourhood is not a statement boundary any more once the file is damaged
        if p.variant[0] in ("F06", "S07", "S08", "S12", "S13", "P13", "P14", "E06", "X02", "F11", "F12", "D10", "T05", "S11", "S10", "F13", "P05", "D01", "D08"):
            return
    if not bs:
        return
    camp.count("B-programs:" + tag)
    picks = [bs[d.int(0, len(bs) - 1)] for _ in range(per_prog)] if per_prog else bs
    for (i, depth, closed, cls, opener) in picks:
        frags = [d.choice(FRAGMENTS)] if per_prog else [d.choice(FRAGMENTS), d.choice(FRAGMENTS)]
        if not closed and p.variant and p.variant[2] == opener:
            # the fragment completes the (unterminated) opener line into one statement that a rule does recognise; when that line carries
            # the member's only violation nothing is left to report, and the property promises nothing about text a rule recognises
            camp.count("B:open-boundary-behind-the-violating-line(skipped)")
            continue
        for frag in frags:
            q = p.copy()
            q.lines.insert(i, Line(TABS(depth) + [Lx(frag, "garbage")], "garbage", depth, -1))
            judge(camp, p.name, q.text, frag, cls, closed, "mid", state, cli_every)
    # a fragment behind a complete preprocessor directive, on its line (a macro body and #pragma are free-form: left out)
    dl = [i for i, ln in enumerate(p.lines) if ln.kind in ("include", "ifndef", "endif", "ppelse", "undef") and ln.lex and not any(x.k == "cmt" for x in ln.lex)
          and i >= 12 and not (p.variant and p.variant[2] == i)]
    for i in ([dl[d.int(0, len(dl) - 1)]] if dl and per_prog else dl[:6]):
        frag = d.choice(FRAGMENTS)
        q = p.copy()
        q.lines[i].lex += [Lx(" ", "sp"), Lx(frag, "garbage")]
        judge(camp, p.name, q.text, frag, "directive-tail:" + p.lines[i].kind, True, "directive", state, cli_every)
    if avoid_line is not None:
        return
    # last line variants
    for frag in ([d.choice(FRAGMENTS)] if per_prog else FRAGMENTS):
        for semi in (True, False):
            for nl in (True, False):
                f = frag if semi else frag.rstrip(";")
                if not f:
                    continue
                text = p.text + f + ("\n" if nl else "")
                judge(camp, p.name, text, f, "last-line" + ("" if nl else "-nonl"), True, "eof", state, cli_every)


FOCUS_OPS = ("S05", "S05b", "K03", "D03", "P02", "O10", "O11", "S09", "D02")


def focused(camp, p, d, state, cli_every):
    """every site of the operators that reshape a statement without moving line breaks: the fragment goes right behind the
    edited line, where a rule that reads past the end of its line would swallow it"""
    from .. import operators
    for oid in FOCUS_OPS:
        o = operators.OPS[oid]
        if p.ftype not in o["ftypes"]:
            continue
        seen = {}
        for cls, ap in o["fn"](p):
            if seen.get(cls, 0) >= 2:
                continue
            seen[cls] = seen.get(cls, 0) + 1
            q = p.copy()
            li = ap(q)
            if li is None or li < 0:
                continue
            r0 = adapters.analyse(q.name, q.text)
            if r0.status not in ("OK", "Error"):
                continue
            q.variant = (oid, cls, li)
            for (i, depth, closed, bcls, _) in boundaries(q):
                if i == li + 1 and closed:
                    z = q.copy()
                    frag = d.choice(FRAGMENTS)
                    z.lines.insert(i, Line(TABS(depth) + [Lx(frag, "garbage")], "garbage", depth, -1))
                    camp.count("B-focused:" + oid)
                    judge(camp, p.name, z.text, frag, "after-%s-%s" % (oid, cls), True, "mid", state, cli_every)


def judge(camp, name, text, frag, cls, closed, where, state, cli_every):
    r = adapters.analyse(name, text)
    camp.case(text, True)
    camp.count("B:%s:%s" % (where, "closed" if closed else "open"))
    case = {"name": name, "text": text, "frag": frag, "class": cls, "closed": closed, "mode": "B"}
    fk = "quote" if frag[0] in "\"'" else "num" if frag[0].isdigit() else frag.rstrip(";") or ";"
    if r.status == "CRASH":
        camp.count("crash(->C05)")
        return
    if r.stdout.strip() and r.status != "FATAL":
        camp.fail("C07|B|stray-output|%s" % cls, "analysis printed %r" % r.stdout.strip()[:60], case)
    if r.status == "OK":
        camp.fail("C07|B|garbage-accepted|%s|%s" % (cls, fk), "fragment %r at a %s boundary (%s): the file is reported OK!" % (frag, "closed" if closed else "open", cls), case)
        return
    if closed and r.status != "FATAL":
        camp.fail("C07|B|garbage-not-fatal|%s|%s" % (cls, fk), "fragment %r at a closed boundary (%s): status %s, not a fatal diagnostic" % (frag, cls, r.status), case)
        return
    state["k"] += 1
    if state["k"] % cli_every == 0:
        camp.count("cli-runs")
        with adapters.scratch() as dname:
            adapters.write_tree(dname, {name: text})
            res = adapters.forked_cli([name, "--no-colors"], dname)
        if res.traceback:
            camp.count("cli-traceback(->C05)")
        elif res.code == 0 or (r.status == "FATAL" and (name + ": Error!") not in res.out):
            camp.fail("C07|B|cli|%s" % cls, "CLI exit %s, stdout %r" % (res.code, res.out[:160]), case)


@composite
def case(d):
    # operators that change how a line is split into statements are over-sampled
    return family.member_of(d, violating=0.45, prefer=("S05", "S05b", "S07", "S08", "S13", "K02", "K03", "O10", "O11", "D03", "P02")), d


def shard(seed, n, per_prog, cli_every):
    camp = core.Campaign()
    state = {"k": 0}

    def body(v):
        p, d = v
        conforming = p.variant is None
        kinds = {ln.kind for ln in p.lines}
        nt = "cont" in kinds and any(ln.kind == "lbrace" and ln.depth >= 1 for ln in p.lines)
        camp.case(p.text, nt or p.ftype == "h")
        camp.count("A:" + ("conforming" if conforming else "violating"))
        oracle_a(camp, p, conforming)
        if conforming:
            oracle_b(camp, p, d, per_prog, cli_every, state)
        else:
            # the garbage half of the property also covers violating programs; boundaries next to the violating line are
            # left out (the damage there may legitimately merge with the fragment), and the base file must reach a verdict
            r0 = adapters.analyse(p.name, p.text)
            if r0.status in ("OK", "Error"):
                oracle_b(camp, p, d, max(per_prog // 2, 2) if per_prog else 0, cli_every, state, avoid_line=p.variant[2], tag="violating")
        if conforming and d.bool(0.3):
            focused(camp, p, d, state, cli_every)
        if len(camp.samples) < 3 and state["k"] % 13 == 1:
            camp.samples.append({"name": p.name, "statements_by_model": expected_statements(p), "boundaries": len(boundaries(p))})

    core.hyp_run(body, case(), seed, n)
    return camp


def replay(pid, case):
    camp = core.Campaign()
    if case.get("mode") == "B":
        if case["frag"] not in case["text"].split("\n") and ("\t" + case["frag"]) not in case["text"].replace("\t\t", "\t").replace("\t\t", "\t"):
            return []   # (a shrunk text that lost the fragment is outside the case's domain)
        judge(camp, case["name"], case["text"], case["frag"], case["class"], case["closed"], "replay", {"k": 0}, 1)
    else:
        class P:
            pass
        return [("C07|A|replay-needs-model", "mode A cases are replayed by re-running the seed")] if False else []
    return [(k, b["what"]) for k, b in camp.buckets.items()]


def run(pid, tier, seed):
    t0 = time.time()
    shards, n, per_prog, cli_every = (16, 40, 6, 25) if tier == "quick" else (16, 200, 0, 200)
    camp = core.Campaign()
    for name, rc in core.regress_cases(pid):
        for k, what in replay(pid, rc["case"]):
            camp.fail(k, what, rc["case"])
    camp.merge(core.run_shards(shard, [dict(seed=core.seed_of(seed, s, 7), n=n, per_prog=per_prog, cli_every=cli_every) for s in range(shards)]))
    return core.finish(pid, tier, seed, camp, RULE, t0, replay_fn=replay, assumptions=[
        "Context.pop_tokens is the only consumer of tokens (asserted: nothing is left at the end of a non-fatal run)",
        "'unrecognisable' is limited to the eight self-delimiting fragments",
    ])
