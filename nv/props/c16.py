"""C16 — options change the presentation, never the findings (DESIGN §4.16)."""
import json
import os
import time

from .. import adapters, core, family
from ..draw import composite

RULE = ("file of the conforming/violating families (define-related variants over-sampled) x option sets drawn from {--no-colors} x {-f json, "
        "-f humanized, none} x {-o} x {-d, -dd, none} x {-R <unknown word>, -R CheckDefine, none} x {path argument, --cfile/--hfile with "
        "--filename}; oracle: for a file analysed to a verdict, the parsed (verdict, set of (level, code, line, column)) equals the one under "
        "--no-colors alone; inline content equals the stored file; with -R CheckDefine only diagnostics located on #define lines whose code "
        "belongs to the define check may disappear, every PREPROC_CONSTANT does, and the verdict is recomputed; non-trivial = file with >=1 "
        "diagnostic x option set differing from the baseline in >=2 options; distinct by SHA-1 of (text, option set)")

DEFINE_CODES = {"PREPROC_CONSTANT", "TOO_MANY_VALS", "INCORRECT_DEFINE", "MACRO_NAME_CAPITAL", "MACRO_FUNC_FORBIDDEN"}


@composite
def case(d):
    k = d.int(0, 9)
    if k <= 1:
        p = family.member_of(d, violating=1.0, opts={"force": ("define",), "small": True}, only=("P01", "P02", "P03"))
    elif k == 2:
        p = family.member_of(d, violating=0.0, ftype="c", opts={"force": ("global",), "small": True})   # Notice-only files
    elif k == 6:
        # a diagnostic that depends on a statement far away in the file (what is remembered must not depend on the options):
        # a declaration 16 or 40 comment lines in front of the include guard, or a comment at the end of a very long function
        if d.bool():
            from . import c14
            from .. import prog as _prog
            h = _prog.gen_h(d, {"small": True})
            p = c14.variant(h, "G5", 7 * d.choice([7, 8])) or h
            p.variant = ("far", "stray-declaration")
        else:
            base = family.member_of(d, violating=0.0, ftype="c", opts={"small": True})
            lines = base.text.split("\n")
            closes = [i for i, l in enumerate(lines) if l == "}"]
            at = closes[d.int(0, len(closes) - 1)]
            body = ["\tft_step(%d);" % n for n in range(d.int(33, 60))] + ["\twhile (1)", "\t{", "\t\t// no way out", "\t\tft_step(0);", "\t}"]
            k0 = at
            while k0 > 0 and lines[k0 - 1].startswith("\treturn"):
                k0 -= 1
            lines[k0:k0] = body

            class QL:
                pass
            p = QL()
            p.name, p.text, p.variant, p.lines = base.name, "\n".join(lines), ("far", "long-function"), []
    elif k <= 5:
        # full-size files (long functions, up to five of them): whatever a rule remembers or looks back at has to be there under every option
        p = family.member_of(d, violating=0.8, prefer=("K01", "K02", "K03", "E01", "E03", "E07", "F06", "X01", "X01c", "S10", "S11", "D01", "D08"))
    else:
        p = family.member_of(d, violating=0.7, opts={"small": True})
    if d.bool(0.25):
        # characters that some text APIs take for line boundaries: the stored file and the inline content must still agree
        ch = d.choice(["\f", "\v", "\x1c", "\x1d", "\x1e", "\x85", "\u2028", "\u2029", "\r", "\r\n", "\ufeff", "\ufeff"])
        lines = p.text.split("\n")
        at = d.int(12, max(12, len(lines) - 2))
        where = d.choice(["own-line", "in-comment", "end-of-line"])
        if ch == "\ufeff" and d.bool(0.7):
            # a byte order mark in front of the file (editors on Windows write one): stored and inline content must still agree
            text = ch + p.text
            where = "file-start"
        elif ch == "\r\n":
            text = "\r\n".join(lines)
        elif where == "own-line":
            lines.insert(at, ch)
            text = "\n".join(lines)
        elif where == "in-comment":
            lines.insert(at, "/* a" + ch + "b */")
            text = "\n".join(lines)
        else:
            lines[at] = lines[at] + ch
            text = "\n".join(lines)

        class Q:
            pass
        q = Q()
        q.name, q.text, q.variant, q.lines = p.name, text, ("exotic", repr(ch), where), []
        p = q
    if p.lines and d.bool(0.12):
        # a lexical diagnostic with several highlights (the position shown is the first one in every format)
        from .c08 import LEXICAL
        lines = p.text.split("\n")
        lines.insert(d.int(12, max(12, len(lines) - 2)), "\t" + d.choice(LEXICAL).rstrip("\n"))

        class Q2:
            pass
        q = Q2()
        q.name, q.text, q.variant, q.lines = p.name, "\n".join(lines), ("lexical-fragment",), []
        p = q
    sets = []
    for _ in range(d.int(3, 6)):
        o = {"colors": d.bool(0.5), "fmt": d.choice([None, "humanized", "json"]), "o": d.bool(0.3), "debug": d.weighted([(4, 0), (2, 1), (2, 2)]),
             "R": d.weighted([(4, None), (2, "CheckForbiddenSourceHeader"), (1, "Foo"), (2, "CheckDefine"), (1, "CheckDefines"), (1, "NoCheckDefine"), (1, "checkdefine"),
                                   (1, "CheckDefine,CheckForbiddenSourceHeader"), (1, "Check")]), "inline": d.bool(0.3)}
        sets.append(o)
    return p, sets


def argv_of(o, name, text):
    a = []
    if not o["colors"]:
        a.append("--no-colors")
    if o["fmt"]:
        a += ["-f", o["fmt"]]
    if o["o"]:
        a.append("-o")
    a += ["-d"] * o["debug"]
    if o["R"]:
        a += ["-R", o["R"]]
    if o["inline"]:
        a += ["--hfile" if name.endswith(".h") else "--cfile", text, "--filename", name]
    else:
        a.append(name)
    return a


def parse(res, fmt):
    """-> (verdict, frozenset of diags) or None when the run did not reach a verdict"""
    if fmt == "json":
        # (debug dumps share the stream and need not end with a line break: the report is looked for anywhere, last occurrence)
        at = res.out.rfind('{"files"')
        if at < 0:
            return None
        try:
            data = json.loads(res.out[at:].split("\n")[0])
        except ValueError:
            return None
        if len(data["files"]) != 1:
            return ("files=%d" % len(data["files"]), frozenset())
        f = data["files"][0]
        return (f["status"], frozenset((e["level"], e["name"], e["highlights"][0]["lineno"], e["highlights"][0]["column"]) for e in f["errors"]))
    files, other = adapters.parse_humanized(res.out)
    files = [f for f in files]
    if len(files) != 1:
        return None if not files else ("files=%d" % len(files), frozenset())
    if files[0]["fatal"]:
        return None
    return (files[0]["verdict"], frozenset(d[:4] for d in files[0]["diags"]))


def check(camp, p, sets, cli=adapters.forked_cli):
    name, text = p.name, p.text
    with adapters.scratch() as dname:
        adapters.write_tree(dname, {name: text})
        base = cli(["--no-colors", name], dname)
        b = parse(base, None)
        if base.traceback or b is None:
            camp.case(text, False)
            camp.count("not-analysed-to-a-verdict")
            return
        define_lines = {i + 1 for i, ln in enumerate(p.lines) if ln.kind == "define"} if p.lines else {i + 1 for i, l in enumerate(text.replace("\r\n", "\n").replace("\r", "\n").split("\n")) if l.lstrip("# ").startswith("define")}   # (lines as the tool numbers them: CR and CR-LF end a line too)
        for o in sets:
            res = cli(argv_of(o, name, text), dname)
            ndiff = sum([o["colors"], o["fmt"] is not None, o["o"], o["debug"] > 0, o["R"] is not None, o["inline"]])
            camp.case(core.sha([text, sorted(o.items(), key=str)]), len(b[1]) >= 1 and ndiff >= 2)
            for k in ("fmt", "debug", "R", "inline"):
                camp.count("opt:%s=%s" % (k, o[k]))
            case_d = {"name": name, "text": text, "options": o, "variant": p.variant, "define_lines": sorted(define_lines)}
            if res.traceback:
                camp.fail("C16|traceback|%s" % ("debug" if o["debug"] else "other"), res.err.strip().split("\n")[-1][:150], case_d)
                continue
            got = parse(res, o["fmt"])
            if got is None:
                camp.fail("C16|no-verdict|debug=%d" % o["debug"], "options %s: no verdict although the baseline run has one; stdout tail %r" % (argv_of(o, name, "<text>"), res.out[-200:]), case_d)
                continue
            judge(camp, b, got, o, define_lines, case_d)


def judge(camp, b, got, o, define_lines, case_d):
    if o["R"] == "CheckDefine":
        removed = b[1] - got[1]
        added = got[1] - b[1]
        bad_removed = [d for d in removed if not (d[2] in define_lines and d[1] in DEFINE_CODES)]
        left = [d for d in got[1] if d[1] == "PREPROC_CONSTANT"]
        want_verdict = "OK" if all(d[0] == "Notice" for d in got[1]) else "Error"
        if added:
            camp.fail("C16|CheckDefine|added|%s" % sorted(added)[0][1], "-R CheckDefine added %s" % sorted(added)[:3], case_d)
        if bad_removed:
            camp.fail("C16|CheckDefine|removed-too-much|%s" % sorted(bad_removed)[0][1], "-R CheckDefine removed %s" % sorted(bad_removed)[:3], case_d)
        if left:
            camp.fail("C16|CheckDefine|PREPROC_CONSTANT-left", "still reported: %s" % left[:2], case_d)
        if got[0] != want_verdict:
            camp.fail("C16|CheckDefine|verdict", "verdict %s with diagnostics %s" % (got[0], sorted(got[1])[:3]), case_d)
        return
    if got != b:
        what = "verdict" if got[0] != b[0] else "diagnostics"
        opt = ("inline" + ("|" + case_d["variant"][1] if case_d.get("variant") and case_d["variant"][0] == "exotic" else "")) if o["inline"] else "json" if o["fmt"] == "json" else "debug" if o["debug"] else "R" if o["R"] else "o" if o["o"] else "colors"
        camp.fail("C16|%s|%s" % (what, opt), "options %s: %s, baseline %s; only-baseline %s only-here %s" % (
            {k: v for k, v in o.items() if v}, got[0], b[0], sorted(b[1] - got[1])[:3], sorted(got[1] - b[1])[:3]), case_d)


def shard(seed, n, real_every):
    camp = core.Campaign()
    st = {"i": 0}

    def body(v):
        p, sets = v
        st["i"] += 1
        check(camp, p, sets)
        if real_every and st["i"] % real_every == 0:
            c2 = core.Campaign()
            check(c2, p, sets[:2], cli=adapters.real_cli)
            camp.count("real-cli-cases")
            for k, b in c2.buckets.items():
                camp.fail(k + "|real-cli", b["what"], b["case"])
        if len(camp.samples) < 3 and st["i"] % 7 == 1:
            camp.samples.append({"name": p.name, "variant": p.variant, "option_sets": [argv_of(o, p.name, "<text>") for o in sets]})

    core.hyp_run(body, case(), seed, n)
    return camp


def replay(pid, case):
    camp = core.Campaign()

    class P:
        pass
    p = P()
    p.name, p.text, p.variant = case["name"], case["text"], case.get("variant")

    class L:
        def __init__(self, kind):
            self.kind = kind
    nl = case["text"].count("\n") + 1
    p.lines = [L("define" if (i + 1) in set(case.get("define_lines", [])) else "x") for i in range(nl)]
    check(camp, p, [case["options"]])
    return [(k, b["what"]) for k, b in camp.buckets.items()]


def run(pid, tier, seed):
    t0 = time.time()
    class R:
        out = 'x\n{"files":[{"path":"/a/b.c","status":"OK","errors":[{"name":"N","text":"t","level":"Notice","highlights":[{"lineno":1,"column":2,"length":null,"hint":null}]}]}]}\n'
    if parse(R, "json") != ("OK", frozenset({("Notice", "N", 1, 2)})):
        raise core.HarnessError("json parser self-test failed")
    shards, n, real_every = (16, 50, 25) if tier == "quick" else (16, 300, 10)
    camp = core.Campaign()
    for name, rc in core.regress_cases(pid):
        for k, what in replay(pid, rc["case"]):
            camp.fail(k, what, rc["case"])
    camp.merge(core.run_shards(shard, [dict(seed=core.seed_of(seed, s, 16), n=n, real_every=real_every) for s in range(shards)]))
    return core.finish(pid, tier, seed, camp, RULE, t0, replay_fn=replay, assumptions=[
        "'#define-value diagnostics' is read as the diagnostics of the define check; name / function-macro codes may (not must) disappear under -R CheckDefine",
        "files that stop with a fatal error under the baseline options are outside the property",
    ])
