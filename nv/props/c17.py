"""C17 — comment text and string contents are opaque (DESIGN §4.17)."""
import time

from .. import core, family
from ..draw import composite
from .c18 import compare

RULE = ("file of the conforming/violating families (incl. comments inside functions via K01/K02 variants) x one or more comment / string / "
        "character-literal interiors replaced by code-like text of the same displayed width (operators, braces, keywords, semicolons, the other "
        "quote; never a delimiter, backslash, tab, line break or '??'); oracle: status and diagnostics identical incl. columns and order; "
        "non-trivial = replacement contains one of ; { } ( ) # \" ' or a keyword and differs from the original; distinct by SHA-1 of the pair")

MATERIAL = [";", "{", "}", "(", ")", "[", "]", "+", "-", "*", "/", "%", "=", "<", ">", "!", "&", "|", "^", "~", ",", ".", ":", "#", "?",
            "0", "1", "9", "a", "x", "_", " ", "if", "else", "while", "return", "int", "for", "struct", "<:", "%>", "//", "/*",
            "NULL", "A", "MAX", "T_", "INT", "Z9"]


def filler(d, width, forbid):
    out = ""
    guard = 0
    style = d.int(0, 4)   # 0: upper-case letters only, 1: no letters at all, else: anything
    pool = [m for m in MATERIAL if not any(c.islower() for c in m)] if style == 0 else [m for m in MATERIAL if not any(c.isalpha() for c in m)] if style == 1 else MATERIAL
    while len(out) < width and guard < 400:
        guard += 1
        piece = d.choice(pool)
        if len(out) + len(piece) > width:
            piece = d.choice("ABX;(){}=+ " if style == 0 else ";(){}=+ 19" if style == 1 else "abx;(){}=+ ")
        cand = out + piece
        if any(f in cand for f in forbid):
            continue
        out = cand
    return out.ljust(width, "X" if style == 0 else "1" if style == 1 else "x")[:width]


def spans(p):
    """[(line index, lexeme index, kind)] of replaceable interiors"""
    out = []
    sid_lines = {}
    for i, ln in enumerate(p.lines):
        if ln.kind == "comment" and len(ln.lex) == 1:
            sid_lines.setdefault(ln.sid, []).append(i)
    for i, ln in enumerate(p.lines):
        if ln.kind in ("hdr", "include"):
            continue
        for k, x in enumerate(ln.lex):
            if "header42" in x.tags:
                continue
            if x.k == "str":
                out.append((i, k, "str"))
            elif x.k == "chr":
                body = x.t[x.t.index("'") + 1:-1]
                if len(body) == 1:
                    out.append((i, k, "chr"))
            elif x.k == "cmt":
                t = x.t.strip()
                if t.startswith("//"):
                    out.append((i, k, "line-comment"))
                elif t.startswith("/*") and t.endswith("*/") and len(t) >= 4:
                    out.append((i, k, "block-comment"))
                elif not t.startswith("/*") and not t.endswith("*/"):
                    out.append((i, k, "block-interior"))
    return out


def replace(d, x, kind):
    t = x.t
    if kind == "str":
        q = t.index('"')
        inner = t[q + 1:-1]
        return t[:q + 1] + filler(d, len(inner), ['"', "\\", "??"]) + '"'
    if kind == "chr":
        q = t.index("'")
        c = d.choice([c for c in ";{}()[]+-*/%=<>!&|^~,.:#?\"a0 "])
        return t[:q + 1] + c + "'"
    if kind == "line-comment":
        lead = len(t) - len(t.lstrip())
        return t[:lead + 2] + filler(d, len(t) - lead - 2, ["\\", "??"]).rstrip().ljust(0) if False else t[:lead + 2] + _nospace_end(filler(d, len(t) - lead - 2, ["\\", "??"]))
    if kind == "block-comment":
        lead = len(t) - len(t.lstrip())
        inner_w = len(t) - lead - 4
        return exotic(d, t[:lead + 2] + filler(d, inner_w, ["*/", "\\", "??", "/*"]) + "*/", lead + 2, lead + 2 + inner_w)
    if kind == "block-interior":
        new = _nospace_end(filler(d, len(t), ["*/", "\\", "??", "/*"]))
        return exotic(d, new, 0, len(new) - 1)
    raise KeyError(kind)


EXOTIC = ["\f", "\v", "\x1c", "\x1d", "\x1e", "\x85", "\u2028", "\u2029", "\u00a0", "\u00e9", "\u2192"]


def exotic(d, text, lo, hi):
    """comment text is opaque also for characters that some library routines take for line or word separators (form feed, vertical tab,
    information separators, NEL, LINE/PARAGRAPH SEPARATOR, no-break space) and for non-ASCII letters: put 1..3 of them at lo <= position < hi"""
    if hi - lo < 3 or not d.bool(0.15):
        return text
    out = list(text)
    for _ in range(d.int(1, 3)):
        k = d.int(lo, hi - 1)
        if out[k] not in "*/\\?":
            out[k] = d.choice(EXOTIC)
    return "".join(out)


def _nospace_end(s):
    # a trailing blank would be a (real) trailing-space violation: keep the last column non-blank
    if s.endswith(" "):
        s = s[:-1] + "x"
    return s


@composite
def case(d):
    p = family.member_of(d, prefer=("K01", "K02", "K03", "K04"), opts={"decorate": True})
    sp = spans(p)
    forced = None
    if sp and d.bool(0.4):
        # make sure something is reported AFTER a literal/comment on its own line (a trailing blank: the diagnostic sits at
        # the end of the line), so that a column that depends on the replaced text becomes visible
        j = d.int(0, len(sp) - 1)
        i = sp[j][0]
        from ..prog import SP as _SP
        if p.lines[i].kind not in ("comment", "define", "include") and p.lines[i].lex and p.lines[i].lex[-1].k != "cmt":
            p = p.copy()
            p.variant = ("trailing-blank-after-literal", p.lines[i].kind, i)
            p.lines[i].lex.append(_SP())
            forced = j
    if forced is None and p.variant and p.variant[0] in ("K01", "K02", "K03", "K04") and sp:
        # the comment that the operator put there is the one to rewrite
        li = p.variant[2]
        own = [j for j, (i, k, kind) in enumerate(sp) if i == li and kind in ("block-comment", "line-comment")]
        if own:
            forced = d.choice(own)
    q = p.copy()
    chosen = []
    if sp:
        n = d.int(1, min(3, len(sp)))
        idxs = sorted({d.int(0, len(sp) - 1) for _ in range(n)} | ({forced} if forced is not None else set()))
        for j in idxs:
            i, k, kind = sp[j]
            new = replace(d, q.lines[i].lex[k], kind)
            chosen.append((kind, q.lines[i].lex[k].t, new))
            q.lines[i].lex[k].t = new
    return p, q, chosen


INTERESTING = (";", "{", "}", "(", ")", "#", '"', "'", "if", "else", "while", "return", "int", "for", "struct")


def shard(seed, n):
    camp = core.Campaign()

    def body(v):
        p, q, chosen = v
        a, b = p.text, q.text
        nt = a != b and any(any(tok in new for tok in INTERESTING) for _, _, new in chosen)
        camp.case(a + "\0" + b, nt)
        if not chosen:
            camp.count("no-span")
            return
        for kind, _, _ in chosen:
            camp.count("span:" + kind)
        if len(a) != len(b):
            raise core.HarnessError("replacement changed the text length: %r" % (chosen,))
        kinds = "+".join(sorted({k for k, _, _ in chosen}))
        di = any(any(g in new for g in ("<:", ":>", "<%", "%>", "%:")) for k, _, new in chosen if k in ("block-comment", "block-interior", "line-comment"))

        def relation(diff):
            # a difference on the line of a replaced comment that now contains a digraph is attributed to that comment alone
            if di and diff and diff[0][2]:
                blines = b.split("\n")
                ln = blines[diff[0][2] - 1] if diff[0][2] - 1 < len(blines) else ""
                for k, _, new in chosen:
                    if k in ("block-comment", "block-interior", "line-comment") and new.split("\n")[0] in ln and any(g in new for g in ("<:", ":>", "<%", "%>", "%:")):
                        return "C17|%s|digraph-in-comment" % k
            return "C17|%s%s" % (kinds, "|digraph-in-comment" if di else "")
        compare(camp, p.name, a, b, {"variant": p.variant, "replaced": chosen}, relation=relation)
        if len(camp.samples) < 4 and camp.evaluations % 29 == 1:
            camp.samples.append({"variant": p.variant, "replaced": chosen})

    core.hyp_run(body, case(), seed, n)
    return camp


def replay(pid, case):
    camp = core.Campaign()
    compare(camp, case["name"], case["a"], case["b"], {}, relation="C17")
    return [(k, b["what"]) for k, b in camp.buckets.items()]


def run(pid, tier, seed):
    t0 = time.time()
    shards, n = (16, 250) if tier == "quick" else (16, 4000)
    camp = core.Campaign()
    for name, rc in core.regress_cases(pid):
        for k, what in replay(pid, rc["case"]):
            camp.fail(k, what, rc["case"])
    camp.merge(core.run_shards(shard, [dict(seed=core.seed_of(seed, s, 17), n=n) for s in range(shards)]))
    return core.finish(pid, tier, seed, camp, RULE, t0, replay_fn=replay, assumptions=[
        "displayed width = number of characters (ASCII replacement text, no tabs)",
        "the 42 header and #include operands are excluded, as the property states",
    ])
