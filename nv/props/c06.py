"""C06 — the verdict is a pure function of the file (DESIGN §4.6)."""
import json
import os
import subprocess
import sys
import time

from .. import adapters, core, family
from ..draw import composite

RULE = ("(1) histories of 2..8 files (clean / violating .c and .h, fatal by garbage or unbalanced bracket, fatal inside #if parsing, files with "
        "lexical diagnostics, recursion-sensitive probes, empty file, the same file again; debug 0/1, -R word per step) run through ONE registry "
        "in a child forked from a pristine process, as main() does; oracle: the result of every step (status incl. fatal message, diagnostics "
        "with columns and order) equals the result of that file alone in its own fresh fork; (2) the same files in reversed order; (3) the "
        "rules directory listing permuted (os.listdir patched before norminette is imported, in a spawned interpreter): results on a generated "
        "corpus equal those under the sorted listing; (4) the non-fatal files of the history given to ONE command-line run (main(), forked), each in "
        "its own directory, also the same content under another base name: every file's block of the report (verdict, diagnostics) equals "
        "the block it gets as the only argument; non-trivial = history with >=2 steps whose earlier step is erroneous/fatal/other file type "
        "and whose later step is a probe or a clean file; distinct by the class sequence and SHA-1 of the texts")


def probe_deep_parens(n):
    return "int\tft_deep(int a)\n{\n\treturn (" + "(" * n + "a" + ")" * n + ");\n}\n"


def probe_bad_chars(n):
    return "int\tft_bad(int a)\n{\n\treturn (a);\n}\n" + "@" * n + "\n"


COMMENT_TEMPLATES = [
    ("\twhile (a){C}\n\t\ta--;", True), ("\twhile (a){C}\n\t\t;", True), ("\tif (a){C}\n\t\treturn (1);", True),
    ("\tif (a)\n\t\ta++;\n\telse{C}\n\t\ta--;", True), ("\ta = a{C} + 1;", False), ("\tft_c(a,{C} a);", False), ("\treturn{C} (a);", False),
    ("\ta++;{C}", True), ("\twhile (a){C}\n\t{\n\t\ta--;\n\t}", True), ("\t{C}", True), ("\tif{C} (a)\n\t\ta++;", False),
]


def step_file(d):
    """-> (class, name, text)"""
    k = d.weighted([(4, "clean.c"), (3, "clean.h"), (4, "viol"), (2, "fatal-garbage"), (2, "fatal-if"), (1, "fatal-if-deep"), (2, "lexical"),
                    (2, "deep-parens"), (2, "bad-chars"), (1, "empty"), (4, "comment-scan"), (2, "header-only"), (2, "broken-header"), (1, "comments-only")])
    if k in ("header-only", "broken-header", "comments-only"):
        from .. import header42
        f = header42.fields(d, None)
        hdr = header42.render(f)
        if k == "header-only":      # the file ends while the leading comment run is still open
            return k, "stub.c", "\n".join(hdr) + ("\n" if d.bool() else "")
        if k == "comments-only":
            return k, "cmts.c", "\n".join(hdr[:d.int(1, 10)]) + "\n// and a line comment\n"
        mid = d.choice([m for m in header42.MUTATIONS if m not in ("H1", "H2", "H3a", "H3b")])
        return k, "broken.c", "\n".join(header42.mutate(hdr, mid)) + "\n\nint\tft_b(void)\n{\n\treturn (0);\n}\n"
    if k == "clean.c":
        p = family.member_of(d, violating=0.0, ftype="c", opts={"small": True})
        return k, p.name, p.text
    if k == "clean.h":
        p = family.member_of(d, violating=0.0, ftype="h", opts={"small": True})
        return k, p.name, p.text
    if k == "viol":
        # (the naming and counting rules keep per-name / per-scope records: a share of the violating files exercises them)
        p = family.member_of(d, violating=1.0, opts={"small": True}, prefer=("D11", "D12", "F03", "P01", "T06", "T07", "T08", "T09", "D09", "F07", "F11", "D10"))
        return k, p.name, p.text
    if k == "fatal-garbage":
        p = family.member_of(d, violating=0.0, ftype="c", opts={"small": True})
        lines = p.text.split("\n")
        lines.insert(d.int(12, len(lines) - 1), d.choice(["42;", "];", "int\tf(", "\tx = (1;"]))
        return k, p.name, "\n".join(lines)
    if k == "fatal-if":
        return k, "cond.c", "#if (A\nint\tg_a;\n#endif\n" if d.bool() else "#if defined(A) &&\nint\tg_a;\n#endif\n"
    if k == "fatal-if-deep":
        n = d.int(120, 300)
        return k, "cond2.c", "#if " + "(" * n + "1" + ")" * n + "\n#endif\n"
    if k == "lexical":
        return k, "lex.c", "int\tft_l(void)\n{\n\treturn (%s);\n}\n" % d.choice(["'ab'", "0b12", "089", "1.2.3", "'\\q'", "@", "12ab"])
    if k == "deep-parens":
        return k, "deep.c", probe_deep_parens(d.int(30, 300))
    if k == "bad-chars":
        return k, "bad.c", probe_bad_chars(d.int(20, 400))
    if k == "comment-scan":
        # comments at positions that rules scan over (a later file must not see them differently)
        body = []
        for _ in range(d.int(2, 6)):
            tpl, eol = d.choice(COMMENT_TEMPLATES)
            c = d.choice([" /* c */", " // c"] if eol else [" /* c */", "/* c */"])
            body.append(tpl.replace("{C}", c))
        return k, "cmt.c", "int\tft_c(int a)\n{\n" + "\n".join(body) + "\n\treturn (0);\n}\n"
    return k, "empty.c", ""


@composite
def history(d):
    steps = []
    for _ in range(d.int(2, 6)):
        prev_h = [x for x in steps if x["cls"] == "clean.h"]
        if prev_h and d.bool(0.3):
            # same name as an earlier header, different content: a guard variant of it (state keyed by names must not leak)
            src = d.choice(prev_h)
            lines = src["text"].split("\n")
            v = d.choice(["nodef", "other-define", "no-endif-guard-text"])
            out = []
            for ln in lines:
                if ln.startswith("# define ") and ln.endswith("_H") and v == "nodef":
                    continue
                if ln.startswith("# define ") and ln.endswith("_H") and v == "other-define":
                    ln = "# define FT_SOMETHING_ELSE"
                out.append(ln)
            s = {"cls": "guard-variant", "name": src["name"], "text": "\n".join(out)}
        elif steps and d.bool(0.2):
            # the same file again: a violating one by preference (what was reported once must be reported again)
            vs = [x for x in steps if x["cls"] in ("viol", "lexical", "guard-variant", "broken-header")]
            s = dict(d.choice(vs) if vs and d.bool(0.7) else d.choice(steps))
        elif steps and d.bool(0.12):
            # the same content under another base name (for a header the expected guard follows the name)
            src = d.choice(steps)
            ext = os.path.splitext(src["name"])[1] or ".c"
            s = {"cls": "same-content", "name": "copy_of_%d%s" % (len(steps), ext), "text": src["text"]}
        else:
            cls, name, text = step_file(d)
            s = {"cls": cls, "name": name, "text": text}
        s["debug"] = 1 if d.bool(0.1) else 0
        s["R"] = d.weighted([(8, None), (1, "CheckDefine"), (1, "Foo")])
        steps.append(s)
    return steps


def run_in_fork(steps, timeout=120):
    """analyse the steps with one Registry in a forked child; -> list of comparable results (or None if the child died)"""
    import norminette.registry  # noqa: make sure the zygote state is 'imported, nothing analysed'
    r, w = os.pipe()
    pid = os.fork()
    if pid == 0:
        out = []
        try:
            os.close(r)
            from norminette.registry import Registry
            reg = Registry()
            for s in steps:
                before = sys.getrecursionlimit()
                res = adapters.analyse(s["name"], s["text"], debug=s["debug"], R=[s["R"]] if s["R"] else None, registry=reg)
                out.append({"status": res.status, "fatal": res.fatal, "crash": list(res.crash[:2]) if res.crash else None,
                            "diags": [list(x) for x in res.diags], "rl": [before, sys.getrecursionlimit()]})
            data = json.dumps(out).encode()
        except BaseException as e:  # noqa
            data = json.dumps({"child-error": repr(e)}).encode()
        try:
            os.write(w, data) if len(data) < 60000 else _write_all(w, data)
        finally:
            os._exit(0)
    os.close(w)
    chunks = []
    while True:
        b = os.read(r, 65536)
        if not b:
            break
        chunks.append(b)
    os.close(r)
    os.waitpid(pid, 0)
    try:
        data = json.loads(b"".join(chunks).decode())
    except Exception:
        return None
    if isinstance(data, dict):
        raise core.HarnessError("history child failed: %s" % data)
    return data


def _write_all(fd, data):
    view = memoryview(data)
    while view:
        n = os.write(fd, view[:65536])
        view = view[n:]


_BASE = {}


def baseline(s):
    key = core.sha([s["name"], s["text"], s["debug"], s["R"]])
    if key not in _BASE:
        res = run_in_fork([s])
        _BASE[key] = res[0] if res else None
    return _BASE[key]


def comparable(x):
    return (x["status"], x["fatal"], tuple(x["crash"]) if x["crash"] else None, tuple(map(tuple, x["diags"])))


def check_history(camp, steps, label="history"):
    got = run_in_fork(steps)
    classes = [s["cls"] for s in steps]
    trig = {"viol", "fatal-garbage", "fatal-if", "fatal-if-deep", "lexical", "clean.h", "comment-scan", "header-only", "comments-only", "broken-header"}
    probe = {"deep-parens", "bad-chars", "clean.c", "clean.h", "comment-scan", "viol", "guard-variant", "broken-header"}
    nt = any(classes[i] in trig and any(c in probe for c in classes[i + 1:]) for i in range(len(classes) - 1))
    camp.case(core.sha([label, [(s["name"], s["text"], s["debug"], s["R"]) for s in steps]]), nt)
    camp.count("steps=%d" % len(steps))
    for c in classes:
        camp.count("class:" + c)
    if got is None:
        camp.fail("C06|child-died", "the history child produced no result", {"steps": steps})
        return
    for i, (s, g) in enumerate(zip(steps, got)):
        b = baseline(s)
        if b is None:
            continue
        if g["rl"][0] != b["rl"][0]:
            camp.count("recursion-limit-differs-at-step-start")
        if comparable(g) != comparable(b):
            if g["status"] == "CRASH" and b["status"] == "CRASH":
                continue
            prev = classes[:i]
            cause = "after-fatal-if" if any(c.startswith("fatal-if") for c in prev) else "after-" + (prev[-1] if prev else "nothing")
            what = "status" if g["status"] != b["status"] else "diagnostics"
            camp.fail("C06|%s|%s|%s" % (what, s["cls"], cause),
                      "step %d (%s, %s) after %s: %s / %s in the shared run, %s / %s alone (recursion limit %s vs %s)" % (
                          i, s["cls"], s["name"], prev, g["status"], (g["fatal"] or str(g["diags"][:2]))[:80], b["status"], (b["fatal"] or str(b["diags"][:2]))[:80], g["rl"], b["rl"]),
                      {"steps": steps[:i + 1]})
            return


CLI_CLASSES = {"clean.c", "clean.h", "viol", "lexical", "comment-scan", "guard-variant", "header-only", "broken-header", "comments-only", "same-content"}
_SOLO = {}


def _cli_blocks(argv, files):
    with adapters.scratch() as dname:
        adapters.write_tree(dname, files)
        res = adapters.forked_cli(list(argv) + ["--no-colors"], dname)
    if res.traceback:
        return None
    parsed, _ = adapters.parse_humanized(res.out)
    return [(f["name"], f["verdict"], f["fatal"], tuple(map(tuple, f["diags"]))) for f in parsed]


def cli_history(camp, steps):
    """the same history as ONE command-line run over several paths: every file's block must be what the file gets when it is the only argument"""
    usable = [s for s in steps if s["cls"] in CLI_CLASSES and not s["debug"] and not s["R"]]
    if len(usable) < 2:
        return
    solo = []
    for s in usable:
        key = core.sha([s["name"], s["text"]])
        if key not in _SOLO:
            b = _cli_blocks(["f/" + s["name"]], {"f/" + s["name"]: s["text"]})
            _SOLO[key] = b[0] if b and len(b) == 1 else None
        solo.append(_SOLO[key])
    if any(b is None or b[2] for b in solo):
        return      # a file that is fatal (or unreported) on its own: what follows it in a run is C04's business
    files = {"d%d/%s" % (i, s["name"]): s["text"] for i, s in enumerate(usable)}
    got = _cli_blocks(list(files), files)
    camp.case(core.sha(["cli", [(s["name"], s["text"]) for s in usable]]), len({s["name"] for s in usable}) >= 2 or len({s["text"] for s in usable}) >= 2)
    camp.count("cli-histories")
    case = {"cli_steps": [{"cls": s["cls"], "name": s["name"], "text": s["text"]} for s in usable]}
    if got is None:
        camp.count("cli-traceback(->C05)")
        return
    if len(got) != len(solo):
        camp.fail("C06|cli|file-count", "%d files on the command line, %d blocks in the report" % (len(solo), len(got)), case)
        return
    for i, (g, b) in enumerate(zip(got, solo)):
        if g != b:
            camp.fail("C06|cli|%s|%s" % ("verdict" if g[1] != b[1] else "diagnostics", usable[i]["cls"]),
                      "file %d (%s) in a run of %d files: %s %s; alone: %s %s" % (i, usable[i]["name"], len(usable), g[1], list(g[3])[:2], b[1], list(b[3])[:2]), case)
            return


def shard(seed, n):
    camp = core.Campaign()

    def body(steps):
        check_history(camp, steps)
        if len(steps) >= 2:
            check_history(camp, list(reversed(steps)), "reversed")
        cli_history(camp, steps)
        if len(camp.samples) < 3 and camp.evaluations % 9 == 1:
            camp.samples.append([{"class": s["cls"], "name": s["name"], "debug": s["debug"], "R": s["R"]} for s in steps])

    core.hyp_run(body, history(), seed, n)
    return camp


# -- rule directory listing permutations -------------------------------------------------------
PERM_SCRIPT = r'''
import json, os, random, sys
sys.path.insert(0, sys.argv[1]); sys.path.insert(0, sys.argv[2])
mode, seed = sys.argv[3], int(sys.argv[4])
real = os.listdir
def patched(path="."):
    out = real(path)
    if str(path).rstrip("/").endswith(os.path.join("norminette", "rules")):
        out = sorted(out)
        if mode == "perm":
            random.Random(seed).shuffle(out)
        elif mode == "reversed":
            out.reverse()
    return out
os.listdir = patched
from nv import adapters
corpus = json.load(open(sys.argv[5]))
res = []
for name, text in corpus:
    r = adapters.analyse(name, text)
    res.append([r.status, r.fatal, list(r.crash[:2]) if r.crash else None, [list(x) for x in r.diags]])
print(json.dumps(res))
'''


def permutations(camp, seed, nperm, ncorpus):
    import random
    import tempfile
    from ..draw import RDraw
    d = RDraw(random.Random(seed))
    corpus = []
    for _ in range(ncorpus):
        p = family.member_of(d, violating=0.6, opts={"small": True})
        corpus.append([p.name, p.text])
    corpus.append(["cmt.c", "int\tft_c(int a)\n{\n\twhile (a) /* c */\n\t\ta--;\n\treturn (0);\n}\n"])
    # the repository's own samples: exotic constructs (attributes, K&R leftovers, macros) that two primaries may both accept
    import glob
    samples = sorted(glob.glob(os.path.join(core.REPO, "tests", "rules", "samples", "*.[ch]")))
    for path in samples:
        try:
            with open(path, errors="replace") as f:
                corpus.append([os.path.basename(path), f.read()])
        except OSError:
            pass
    with adapters.scratch() as dname:
        cpath = os.path.join(dname, "corpus.json")
        spath = os.path.join(dname, "perm.py")
        json.dump(corpus, open(cpath, "w"))
        open(spath, "w").write(PERM_SCRIPT)

        def run(mode, s):
            env = dict(os.environ)
            p = subprocess.run([sys.executable, "-B", spath, core.REPO, core.VERIF, mode, str(s), cpath], capture_output=True, timeout=600, env=env)
            if p.returncode != 0:
                return None, p.stderr.decode()[-400:]
            return json.loads(p.stdout.decode().strip().split("\n")[-1]), ""
        ref, err = run("sorted", 0)
        if ref is None:
            raise core.HarnessError("reference listing run failed: " + err)
        jobs = [("reversed", 0)] + [("perm", seed * 100 + k) for k in range(nperm)]
        from concurrent.futures import ThreadPoolExecutor
        with ThreadPoolExecutor(max_workers=8) as ex:
            outs = list(ex.map(lambda j: run(*j), jobs))
        for (mode, s), (got, err) in zip(jobs, outs):
            camp.case("perm|%s|%d" % (mode, s), True)
            camp.count("listing-permutations")
            if got is None:
                camp.fail("C06|listing|import-fails", "norminette does not import/run under a permuted rules listing: %s" % err.strip().split("\n")[-1][:150], {"mode": mode, "seed": s})
                continue
            for (name, text), a, b in zip(corpus, ref, got):
                if a != b:
                    da = set(map(tuple, a[3]))
                    db = set(map(tuple, b[3]))
                    diff = sorted(da ^ db, key=str)
                    camp.fail("C06|listing|%s" % (diff[0][1] if diff else "status-or-order"), "file %s: %s under the sorted listing, %s under permutation %s/%d" % (name, (a[0], sorted(da - db)[:2]), (b[0], sorted(db - da)[:2]), mode, s),
                              {"mode": mode, "seed": s, "name": name, "text": text})
                    break


def replay(pid, case):
    camp = core.Campaign()
    if "cli_steps" in case:
        cli_history(camp, [dict(x, debug=0, R=None) for x in case["cli_steps"]])
    if "steps" in case:
        check_history(camp, case["steps"])
    return [(k, b["what"]) for k, b in camp.buckets.items()]


def run(pid, tier, seed):
    t0 = time.time()
    if comparable({"status": "OK", "fatal": None, "crash": None, "diags": [["Error", "X", 1, 1]]}) == comparable({"status": "OK", "fatal": None, "crash": None, "diags": []}):
        raise core.HarnessError("comparison self-test failed")
    shards, n, nperm, ncorpus = (16, 40, 4, 20) if tier == "quick" else (16, 150, 40, 50)
    camp = core.Campaign()
    for name, rc in core.regress_cases(pid):
        for k, what in replay(pid, rc["case"]):
            camp.fail(k, what, rc["case"])
    permutations(camp, seed, nperm, ncorpus)
    camp.merge(core.run_shards(shard, [dict(seed=core.seed_of(seed, s, 6), n=n) for s in range(shards)]))
    return core.finish(pid, tier, seed, camp, RULE, t0, replay_fn=replay, assumptions=[
        "listing permutations are sampled (the space is 58!); leaks needing a file class that is not generated are invisible",
        "each history runs in a forked child so that leaked state cannot reach the harness",
    ])
