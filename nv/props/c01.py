"""C01 — Norm-conforming files are accepted (DESIGN §4.1)."""
import os
import time

from .. import adapters, core, ctx, prog
from ..draw import composite

RULE = ("programs drawn by Hypothesis from the conforming-program grammar of DESIGN §4.1 (65% .c, 35% .h); oracle: in-process status OK "
        "and no Error-level diagnostic, no stray output; every 10th program also through the (forked) CLI: stdout is exactly "
        "'<name>: OK!' plus Notice lines and exit status 0; non-trivial = >=2 top-level section kinds and (>=1 control structure "
        "or >=1 typedef/struct block); distinct by SHA-1 of the text")


@composite
def program(d, small=False):
    if d.bool(0.35):
        return prog.decorate(prog.gen_h(d), d)
    return prog.decorate(prog.gen_c(d, {"small": small} if small else None), d)


def nontrivial(p):
    kinds = {ln.kind for ln in p.lines}
    sections = len(kinds & {"include", "define", "global", "proto", "funchead", "typedef", "utype_open", "comment"})
    return sections >= 2 and ("ctrl" in kinds or "utype_open" in kinds)


def oracle(camp, name, text, r, origin="gen"):
    """records failures; returns True if accepted"""
    ok = True
    case = {"name": name, "text": text, "origin": origin}
    if r.status == "FATAL":
        camp.fail("C01|FATAL|" + (r.fatal or "")[:40].split("(")[0], "conforming file stopped with a fatal parse error: %s" % r.fatal, case)
        return False
    if r.status == "CRASH":
        camp.fail("C01|CRASH|%s|%s" % (r.crash[0], r.crash[1]), "internal error on a conforming file: %s" % (r.crash,), case)
        return False
    for lv, code, ln, col in r.diags:
        if lv == "Error":
            ok = False
            key = "C01|" + ctx.root_key(code, text, ln, col)
            line = text.split("\n")[ln - 1] if ln and 1 <= ln <= text.count("\n") + 1 else ""
            camp.fail(key, "%s at (%s,%s) on conforming line %r" % (code, ln, col, line), case)
    if ok and r.status != "OK":
        camp.fail("C01|status", "no Error-level diagnostic but status %s" % r.status, case)
        ok = False
    if ok and r.stdout.strip():
        camp.fail("C01|stray-output", "analysis printed %r" % r.stdout[:80], case)
        ok = False
    return ok


def cli_oracle(camp, name, text, notices, cli=adapters.forked_cli):
    with adapters.scratch() as dname:
        adapters.write_tree(dname, {name: text})
        res = cli([name, "--no-colors"], dname)
    case = {"name": name, "text": text, "origin": "cli"}
    if res.traceback:
        camp.fail("C01|cli-traceback", res.err[-300:], case)
        return
    files, other = adapters.parse_humanized(res.out)
    if len(files) != 1 or files[0]["name"] != name or files[0]["verdict"] != "OK" or other:
        camp.fail("C01|cli-verdict", "stdout %r" % res.out[:300], case)
        return
    if any(d[0] != "Notice" for d in files[0]["diags"]) or len(files[0]["diags"]) != notices:
        camp.fail("C01|cli-diags", "stdout %r" % res.out[:300], case)
    if res.code != 0:
        camp.fail("C01|cli-exit-status" + ("|notice-only" if notices else ""), "file is OK! but the exit status is %d" % res.code, case)


def shard(seed, n, cli_every=10):
    camp = core.Campaign()
    state = {"i": 0}

    def body(p):
        text = p.text
        r = adapters.analyse(p.name, text)
        state["i"] += 1
        camp.case(text, nontrivial(p))
        camp.count("ftype:" + p.ftype)
        for t in p.tags:
            camp.count("tag:" + t)
        ok = oracle(camp, p.name, text, r)
        camp.count("accepted" if ok else "rejected")
        if ok and state["i"] % cli_every == 0:
            camp.count("cli-runs")
            cli_oracle(camp, p.name, text, sum(1 for d in r.diags if d[0] == "Notice"))
        if state["i"] % 37 == 1 and len(camp.samples) < 3:
            camp.samples.append({"name": p.name, "text": text})

    core.hyp_run(body, program(), seed, n)
    return camp


def replay(pid, case):
    camp = core.Campaign()
    if case.get("origin") == "construct":
        r = adapters.analyse(case["name"], case["text"])
        if r.status != "OK" or r.has_error():
            return [(case["key"], "conforming probe rejected: %s" % r.status)]
        return []
    r = adapters.analyse(case["name"], case["text"])
    if oracle(camp, case["name"], case["text"], r, "replay") and case.get("origin") == "cli":
        cli_oracle(camp, case["name"], case["text"], sum(1 for d in r.diags if d[0] == "Notice"))
    return [(k, b["what"]) for k, b in camp.buckets.items()]


def selftest():
    camp = core.Campaign()

    class R:
        status = "Error"
        diags = [("Error", "SPC_AFTER_OPERATOR", 1, 10)]
        stdout = ""
        fatal = crash = None
    if oracle(camp, "x.c", "i = a && -j;\n", R()) or "C01|SPC_AFTER_OPERATOR|&& U x" not in camp.buckets:
        raise core.HarnessError("C01 self-test: rejected program not recorded: %r" % list(camp.buckets))
    R.status, R.diags = "OK", [("Notice", "GLOBAL_VAR_DETECTED", 1, 1)]
    camp = core.Campaign()
    if not oracle(camp, "x.c", "int\tg_a;\n", R()) or camp.buckets:
        raise core.HarnessError("C01 self-test: accepted program recorded as failure")


def _fixed(body_decls, body_stmts, name="probe.c"):
    from .. import header42
    f = dict(header42.DEFAULT, file=name)
    lines = header42.render(f) + ["", "int\tft_probe(int a, int j, char *p)", "{"] + body_decls + [""] + body_stmts + ["\treturn (a);", "}"]
    return name, "\n".join(lines) + "\n"


# constructs excluded from the main campaign because they are confirmed open findings; each is re-observed
# here on a minimal conforming program so that the KNOWN-FINDING line is backed by a fresh reproduction
KNOWN_CONSTRUCTS = {
    "C01|construct:fptr-typedef-ret": _fixed(["\tsize_t\t(*f)(int);"], ["\tf = NULL;"]),
    "C01|construct:typedef-cast-tilde": _fixed(["\tint\ti;"], ["\ti = (size_t)~a;"]),
    "C01|construct:global-fptr-no-init": ("probe2.c", "\n".join(__import__("nv.header42", fromlist=["x"]).render(dict(__import__("nv.header42", fromlist=["x"]).DEFAULT, file="probe2.c")))
                                                + "\n\nstatic int\t(*g_hook)(int);\n\nint\tft_probe(void)\n{\n\treturn (0);\n}\n"),
    "C01|construct:cast-paren-mult": _fixed(["\tint\ti;"], ["\ti = (int)(a) * j;"]),
    "C01|construct:ptrcast-group-mult": _fixed(["\tint\ti;"], ["\ti = ((t_x **)p != NULL) * (j == 0);"]),
}


def known_constructs(camp):
    for key, (name, text) in sorted(KNOWN_CONSTRUCTS.items()):
        r = adapters.analyse(name, text)
        camp.case(text, True)
        errs = [d for d in r.diags if d[0] == "Error"]
        if r.status != "OK" or errs:
            camp.fail(key, "conforming probe rejected: %s %s" % (r.status, errs[:3]), {"name": name, "text": text, "origin": "construct", "key": key})


REQUIRED_TAGS = ["binop:&&", "binop:*", "unary:-", "unary:~", "unary:!", "cast", "sizeof", "call", "K1", "K2", "K3", "braceless-nest", "else",
                 "ctrl:while", "ctrl:else if", "const:hex:first=b", "const:hexfloat", "const:bin", "const:oct", "const:char", "const:string",
                 "hitem:tstruct", "hitem:tenum", "hitem:protos", "hitem:alias", "global", "section:proto", "decl:fptr", "void-cast"]


def run(pid, tier, seed):
    t0 = time.time()
    selftest()
    if tier == "quick":
        shards, n = 16, 300
    else:
        shards, n = 16, 2500
    camp = core.Campaign()
    for name, rc in core.regress_cases(pid):
        for k, what in replay(pid, rc["case"]):
            camp.fail(k, what, rc["case"])
    known_constructs(camp)
    camp.merge(core.run_shards(shard, [dict(seed=core.seed_of(seed, s, 1), n=n) for s in range(shards)]))
    if tier == "thorough":
        missing = [t for t in REQUIRED_TAGS if not camp.counters.get("tag:" + t)]
        if missing:
            raise core.HarnessError("generator never produced: %s" % missing)
    return core.finish(pid, tier, seed, camp, RULE, t0, replay_fn=replay, assumptions=[
        "the conforming grammar of DESIGN §4.1 is the trusted definition of 'respects every rule the Norm states' (narrowest reading)",
        "forked CLI adapter is cross-checked against the real CLI by C04/C16",
    ])
