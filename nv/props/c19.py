"""C19 — diagnostics are local: unrelated text only shifts them (DESIGN §4.19)."""
import time

from .. import adapters, core, family, header42, operators
from ..draw import composite
from ..prog import Line, Lx

RULE = ("file of the conforming/violating families x {R1: the same file without / with the standard header (+ empty line) in front; "
        "R2: a // or one-line block comment inserted directly above a top-level definition, at every top-level gap; R3 (.c, < 5 functions): "
        "a further conforming function appended}; oracle: R1 INVALID_HEADER appears exactly once without the header and every other "
        "diagnostic is shifted by 12 lines; R2 earlier diagnostics untouched, later ones shifted by one line, none added or lost; R3 "
        "diagnostics unchanged; non-trivial = base file has >=1 diagnostic after the insertion point or (conforming) >=2 top-level "
        "definitions; distinct by SHA-1 of (relation, texts)")


def D(name, text):
    r = adapters.analyse(name, text)
    return r, [tuple(x) for x in r.diags]


def shifted(diags, at, by):
    return [(lv, c, ln + by if ln >= at else ln, col) for lv, c, ln, col in diags]


def rel1(camp, p, eol="\n"):
    if not p.lines or p.lines[0].kind != "hdr" or len(p.lines) < 13 or p.lines[11].kind != "blank" or p.lines[11].lex:
        return   # (a variant that edits the header region itself is not "the same file with a header in front")
    if p.variant and 0 <= p.variant[2] < 12:
        return
    with_t = p.text
    without_t = "".join(ln.text + "\n" for ln in p.lines[12:])
    if not without_t.strip():
        return
    if eol != "\n":
        # the file proper written with DOS / old-Mac line ends (content handed over as text is newline-translated by the tool), the header with LF
        hdr_t = "".join(ln.text + "\n" for ln in p.lines[:12])
        without_t = without_t.replace("\n", eol)
        with_t = hdr_t + without_t
    ra, da = D(p.name, without_t)
    rb, db = D(p.name, with_t)
    if ra.status in ("FATAL", "CRASH") or rb.status in ("FATAL", "CRASH"):
        if ra.status != rb.status:
            camp.fail("C19|R1|status", "status %s without header, %s with" % (ra.status, rb.status), {"rel": "R1", "name": p.name, "a": without_t, "b": with_t})
        return
    nh = [x for x in da if x[1] == "INVALID_HEADER"]
    rest = [x for x in da if x[1] != "INVALID_HEADER"]
    nt = len(rest) >= 1 or sum(1 for ln in p.lines if ln.kind in ("funchead", "utype_open", "proto", "typedef")) >= 2
    camp.case("R1\0" + without_t, nt)
    camp.count("R1")
    case = {"rel": "R1", "name": p.name, "a": without_t, "b": with_t, "variant": p.variant}
    if len(nh) != 1:
        camp.fail("C19|R1|INVALID_HEADER-count", "headerless file has %d INVALID_HEADER diagnostics" % len(nh), case)
        return
    want = sorted(shifted(rest, 0, 12))
    if sorted(db) != want:
        diff = sorted(set(db) ^ set(want), key=str)
        camp.fail("C19|R1|%s" % (diff[0][1] if diff else "order"), "with header: %s ; expected (shifted) %s" % (sorted(set(db) - set(want))[:3], sorted(set(want) - set(db))[:3]), case)


def gaps(p):
    """indices i such that a comment line may be inserted before line i: i starts a top-level definition and follows an empty line"""
    out = []
    for i, ln in enumerate(p.lines):
        if i >= 1 and p.lines[i - 1].kind == "blank" and p.lines[i - 1].fn < 0 and ln.fn < 0 or (ln.kind == "funchead" and i >= 1 and p.lines[i - 1].kind == "blank"):
            if ln.kind in ("funchead", "proto", "global", "typedef", "utype_open", "define", "include"):
                out.append(i)
    return out


def rel2(camp, p, d):
    gs = gaps(p)
    if not gs:
        return
    base_t = p.text
    r0, d0 = D(p.name, base_t)
    if r0.status in ("FATAL", "CRASH"):
        return
    for i in gs:
        txt = d.choice(["// note", "/* note */", "// x = {1; 2};", "/* if (a) return ; */"])
        q = p.copy()
        q.lines.insert(i, Line([Lx(txt, "cmt")], "comment", 0, -1))
        t = q.text
        r1, d1 = D(p.name, t)
        at = i + 1   # 1-based line number of the inserted line
        nt = any(x[2] >= at for x in d0) or len(gs) >= 2
        camp.case("R2\0%d\0" % i + t, nt)
        camp.count("R2")
        camp.count("R2:above-" + p.lines[i].kind)
        want = sorted(shifted(d0, at, 1))
        if r1.status != r0.status or sorted(d1) != want:
            diff = sorted(set(d1) ^ set(want), key=str)
            camp.fail("C19|R2|%s|above-%s" % (diff[0][1] if diff else "status", p.lines[i].kind),
                      "comment inserted at line %d: got extra %s, lost %s (status %s -> %s)" % (at, sorted(set(d1) - set(want))[:3], sorted(set(want) - set(d1))[:3], r0.status, r1.status),
                      {"rel": "R2", "name": p.name, "a": base_t, "b": t, "at": at, "variant": p.variant})


def rel3(camp, p):
    if p.ftype != "c" or len(p.funcs) >= 5 or not p.funcs:
        return
    if p.variant and p.variant[0] in ("E05", "F11"):
        return
    if p.lines[-1].kind != "rbrace":
        return
    base_t = p.text
    r0, d0 = D(p.name, base_t)
    if r0.status in ("FATAL", "CRASH"):
        return
    q = p.copy()
    q.lines += operators._simple_function(99, "zz_appended")
    t = q.text
    r1, d1 = D(p.name, t)
    camp.case("R3\0" + t, len(d0) >= 1 or len(p.funcs) >= 2)
    camp.count("R3")
    if r1.status != r0.status or sorted(d1) != sorted(d0):
        diff = sorted(set(d1) ^ set(d0), key=str)
        camp.fail("C19|R3|%s" % (diff[0][1] if diff else "status"), "after appending a function: extra %s, lost %s" % (sorted(set(d1) - set(d0))[:3], sorted(set(d0) - set(d1))[:3]),
                  {"rel": "R3", "name": p.name, "a": base_t, "b": t, "variant": p.variant})


@composite
def case(d):
    if d.bool(0.12):
        # a file that opens with several comments, one of them too long: the header relation must still be a pure shift
        p = family.member_of(d, violating=1.0, ftype="c", opts={"force": ("leading-comments",)}, only=("X01c",))
    elif d.bool(0.1):
        # a preprocessor line directly above a definition (no empty line in between): look-back loops of the rules meet mixed histories
        p = family.member_of(d, violating=1.0, ftype="c", opts={"force": ("define",)}, only=("E07",))
    else:
        p = family.member_of(d, prefer=("X01c", "X01", "K03", "E03", "E07", "T03b", "T01", "T03", "F06"), opts={"decorate": True})
    return p, d


def shard(seed, n):
    camp = core.Campaign()

    def body(v):
        p, d = v
        if p.variant and p.variant[0] in ("E06", "X02"):
            rel3(camp, p)
            return
        rel1(camp, p, d.weighted([(6, "\n"), (1, "\r\n"), (1, "\r")]))
        rel2(camp, p, d)
        rel3(camp, p)
        if len(camp.samples) < 3 and camp.evaluations % 17 == 1:
            camp.samples.append({"name": p.name, "variant": p.variant, "gaps": gaps(p)})

    core.hyp_run(body, case(), seed, n)
    return camp


def replay(pid, case):
    ra, da = D(case["name"], case["a"])
    rb, db = D(case["name"], case["b"])
    rel = case["rel"]
    if rel == "R1":
        rest = [x for x in da if x[1] != "INVALID_HEADER"]
        if len(da) - len(rest) != 1:
            return [("C19|R1|INVALID_HEADER-count", "count %d" % (len(da) - len(rest)))]
        want = sorted(shifted(rest, 0, 12))
    elif rel == "R2":
        want = sorted(shifted(da, case["at"], 1))
    else:
        want = sorted(da)
    if sorted(db) != want:
        diff = sorted(set(db) ^ set(want), key=str)
        return [("C19|%s|%s" % (rel, diff[0][1] if diff else "order"), "extra %s lost %s" % (sorted(set(db) - set(want))[:3], sorted(set(want) - set(db))[:3]))]
    return []


def run(pid, tier, seed):
    t0 = time.time()
    if shifted([("Error", "X", 5, 1), ("Error", "Y", 2, 1)], 3, 1) != [("Error", "X", 6, 1), ("Error", "Y", 2, 1)]:
        raise core.HarnessError("shift self-test failed")
    shards, n = (16, 60) if tier == "quick" else (16, 1500)
    camp = core.Campaign()
    for name, rc in core.regress_cases(pid):
        for k, what in replay(pid, rc["case"]):
            camp.fail(k, what, rc["case"])
    camp.merge(core.run_shards(shard, [dict(seed=core.seed_of(seed, s, 19), n=n) for s in range(shards)]))
    return core.finish(pid, tier, seed, camp, RULE, t0, replay_fn=replay, assumptions=["only top-level insertion points, as the property states"])
