"""C03 — numeric limits are enforced exactly at their boundary (DESIGN §4.3)."""
import time

from .. import adapters, core, header42
from ..draw import composite
from ..prog import vwidth

RULE = ("for each limit L in {80 columns, 25 lines, 5 functions, 4 parameters, 5 variables} and each n in [L-3, L+6] a program is constructed "
        "(not filtered) whose measure is exactly n in a context drawn by Hypothesis (kind of line, depth, position in the file, tabs/text mix, "
        "shape of the body, surrounding functions) and that is otherwise conforming; oracle (iff): the limit's diagnostic is reported for the "
        "measured object <=> n > L, and for no other object; non-trivial = every constructed program, distinct by (limit, n, context class) "
        "and SHA-1 of the text; n = L and n = L+1 are run for every drawn context")

CODES = {"cols": "LINE_TOO_LONG", "lines": "TOO_MANY_LINES", "funcs": "TOO_MANY_FUNCS", "params": "TOO_MANY_ARGS", "vars": "TOO_MANY_VARS_FUNC"}
LIMIT = {"cols": 80, "lines": 25, "funcs": 5, "params": 4, "vars": 5}


def hdr(name):
    return header42.render(dict(header42.DEFAULT, file=name)) + [""]


def pad_to(prefix, suffix, n, fill="x"):
    """prefix + fill*k + suffix of visual width exactly n (or None)"""
    base = vwidth(prefix)
    k = n - base - len(suffix)
    if k < 1:
        return None
    return prefix + fill * k + suffix


def simple_func(name, nbody=1, static=False):
    out = [("static " if static else "") + "int\t%s(void)" % name, "{"]
    for i in range(nbody - 1):
        out.append("\tft_call(%d);" % i)
    out += ["\treturn (0);", "}"]
    return out


# -- 80 columns ---------------------------------------------------------------------------------
COL_KINDS = ["block-first-offstop-tabs", "stmt-string", "stmt-ident", "stmt-expr", "decl", "global", "proto", "define", "line-comment", "block-first", "block-interior",
             "block-last", "block-one", "trailing-comment", "last-line-comment", "last-line-comment-nonl", "ctrl", "funchead", "member", "first-line-comment",
             "last-line-global-nonl", "last-line-global", "line-comment-tabs", "block-one-tabs", "block-one-trailing-blanks", "line-comment-trailing-tab",
             "stmt-trailing-comment-tabs", "block-interior-tabs"]


def build_cols(d, kind, n, ctx):
    """-> (name, text, measured line number) or None"""
    ftype = "h" if kind == "member" else ctx["ftype"]
    name = "t." + ftype if False else "test." + ftype
    top, body_pre, body_post, after = [], [], [], []
    depth = ctx["depth"]
    measured = None
    fn = ["int\tft_a(int a)", "{"]
    nest_open, nest_close = [], []
    for k in range(1, depth):
        nest_open += ["\t" * k + ("if (a)" if ctx["nest_kw"] == "if" else "while (a)"), "\t" * k + "{"]
        nest_close = ["\t" * k + "}"] + nest_close
    ind = "\t" * depth
    if kind == "stmt-string":
        ln = pad_to(ind + 'ft_put("', '");', n)
        inner = (ind, ln)
    elif kind == "stmt-ident":
        ln = pad_to(ind + "a = ft_", "(a);", n)
        inner = (ind, ln)
    elif kind == "stmt-expr":
        ln = None
        base = ind + "a = a"
        while vwidth(base) + 5 < n - 6:
            base += " + a" if ctx["salt"] % 2 else " * 10"
        ln = pad_to(base + " + ft_", "(a);", n)
        inner = (ind, ln)
    elif kind == "ctrl":
        ln = pad_to(ind + "if (a == ft_", "(a))", n)
        inner = (ind, ln)
    else:
        inner = None
    if inner is not None:
        if inner[1] is None:
            return None
        body = nest_open + [inner[1]] + (["\t" * (depth + 1) + "a++;"] if kind == "ctrl" else []) + nest_close
        lines = hdr(name) + fn + body + ["\treturn (a);", "}"]
        measured = len(hdr(name)) + len(fn) + len(nest_open) + 1
        return name, "\n".join(lines) + "\n", measured
    if kind == "decl":
        tabs = "\t" * (1 + ctx["salt"] % 3)
        ln = pad_to("\tint" + tabs + "v", ";", n)
        if ln is None:
            return None
        lines = hdr(name) + ["int\tft_a(int a)", "{", ln, "", "\treturn (a);", "}"]
        return name, "\n".join(lines) + "\n", len(hdr(name)) + 3
    if kind == "funchead":
        ln = pad_to("int\tft_", "(int a)", n)
        lines = hdr(name) + [ln, "{", "\treturn (a);", "}"]
        return name, "\n".join(lines) + "\n", len(hdr(name)) + 1
    single = None
    if kind == "global":
        single = pad_to("int" + "\t" * (1 + ctx["salt"] % 4) + "g_", ";", n)
    elif kind == "proto":
        single = pad_to("int" + "\t" * (1 + ctx["salt"] % 4) + "ft_", "(void);", n)
    elif kind == "define":
        single = pad_to('#define FT_MSG "', '"', n)
    elif kind in ("line-comment", "first-line-comment"):
        single = pad_to("// ", "", n, "c")
    elif kind == "block-one":
        single = pad_to("/* ", " */", n, "c")
    elif kind == "trailing-comment":
        single = pad_to("int\tg_a; /* ", " */", n, "c")
    elif kind == "line-comment-tabs":      # tabs inside the text of a // comment (commented-out code)
        single = pad_to("//\tint\tx;\t" + "\t" * (ctx["salt"] % 3), "", n, "c")
    elif kind == "block-one-tabs":
        single = pad_to("/*\tint\tx;\t", " */", n, "c")
    elif kind == "block-one-trailing-blanks":  # pushed past the limit only by blanks after the closing */
        base = "/* " + "c" * (60 + ctx["salt"]) + " */"
        single = base + " " * (n - len(base)) if n > len(base) else None
    elif kind == "line-comment-trailing-tab":
        base = "// " + "c" * (60 + ctx["salt"])
        single = base
        while single is not None and vwidth(single) < n:
            single += "\t" if vwidth(single + "\t") <= n else " "
        if single is not None and vwidth(single) != n:
            single = None
    if single is not None or kind in ("global", "proto", "define", "line-comment", "block-one", "trailing-comment", "first-line-comment", "line-comment-tabs",
                                      "block-one-tabs", "block-one-trailing-blanks", "line-comment-trailing-tab"):
        if single is None:
            return None
        if ftype == "h":
            lines = hdr(name) + ["#ifndef TEST_H", "# define TEST_H", ""] + [single.replace("#define", "# define") if kind == "define" else single]
            if kind == "define":
                lines[-1] = pad_to('# define FT_MSG "', '"', n)
            m = len(lines)
            lines += ["", "int\tft_a(int a);", "", "#endif"]
            return name, "\n".join(lines) + "\n", m
        pre = [] if kind == "first-line-comment" or ctx["pos"] == "first" else ["#include <unistd.h>", ""]
        lines = hdr(name) + pre + [single] + ([""] if kind not in ("line-comment", "block-one", "first-line-comment", "line-comment-tabs", "block-one-tabs") or ctx["salt"] % 2 else [])
        m = len(hdr(name)) + len(pre) + 1
        lines += simple_func("ft_a", 2)
        return name, "\n".join(lines) + "\n", m
    if kind == "stmt-trailing-comment-tabs":
        ln = pad_to("\tft_put(a);\t/*\tc\t", " */", n, "c")
        if ln is None:
            return None
        lines = hdr(name) + ["int\tft_a(int a)", "{", ln, "\treturn (a);", "}"]
        return name, "\n".join(lines) + "\n", len(hdr(name)) + 3
    if kind == "block-first-offstop-tabs":
        # a block comment that starts off a tab stop (after code and 1-3 blanks) and has tabs on its first line, continued on the next line
        lead = ("\tft_put(a);" if ctx["salt"] % 2 else "\ta = a + 1;") + " " * (1 + ctx["salt"] % 3)
        ln = pad_to(lead + "/*\tc\t" + "\t" * (ctx["salt"] % 2), "", n, "c")
        if ln is None:
            return None
        lines = hdr(name) + ["int\tft_a(int a)", "{", ln, "\t** two */", "\treturn (a);", "}"]
        return name, "\n".join(lines) + "\n", len(hdr(name)) + 3
    if kind == "block-interior-tabs":
        mid = pad_to("**\tint\tx;\t", "", n, "c")
        if mid is None:
            return None
        block = ["/*", mid, "*/"]
        lines = hdr(name)
        m = len(lines) + 2
        lines += block + simple_func("ft_a", 2)
        return name, "\n".join(lines) + "\n", m
    if kind in ("block-first", "block-interior", "block-last"):
        first, mid, last = "/*", "** about", "*/"
        if kind == "block-first":
            first = pad_to("/* ", "", n, "c")
        elif kind == "block-interior":
            mid = pad_to("** ", "", n, "c") if ctx["salt"] % 2 else pad_to("\t", "", n, "c")
        else:
            last = pad_to("** ", " */", n, "c")
        if None in (first, mid, last):
            return None
        # the other lines of the comment may hold characters that some library routines take for line separators
        exo = ["", "", "", "\f", "\v", "\u2028", "\x85", "\x1c", "\u00a0\u00e9"][(ctx["salt"] // 3) % 9]
        one = "** one" + (exo + "page" if exo else "")
        if kind != "block-first" and exo and first == "/*":
            first = "/* " + exo + exo
        block = [first, one, mid, "** two", last] if ctx["salt"] % 3 else [first, mid, last]
        idx = {"block-first": 0, "block-interior": block.index(mid), "block-last": len(block) - 1}[kind]
        if ftype == "h":
            lines = hdr(name) + ["#ifndef TEST_H", "# define TEST_H", ""]
            m = len(lines) + idx + 1
            lines += block + ["int\tft_a(int a);", "", "#endif"]
        else:
            lines = hdr(name)
            m = len(lines) + idx + 1
            lines += block + simple_func("ft_a", 2)
        return name, "\n".join(lines) + "\n", m
    if kind in ("last-line-comment", "last-line-comment-nonl"):
        c = pad_to("// ", "", n, "c")
        lines = hdr(name) + simple_func("ft_a", 2) + ["", c]
        return name, "\n".join(lines) + ("\n" if kind == "last-line-comment" else ""), len(lines)
    if kind in ("last-line-global", "last-line-global-nonl"):
        g = pad_to("int\tg_", ";", n)
        lines = hdr(name) + simple_func("ft_a", 2) + ["", g]
        return name, "\n".join(lines) + ("\n" if kind == "last-line-global" else ""), len(lines)
    if kind == "member":
        ln = pad_to("\tint" + "\t" * (1 + ctx["salt"] % 3) + "m", ";", n)
        lines = hdr(name) + ["#ifndef TEST_H", "# define TEST_H", "", "typedef struct s_a", "{", ln]
        m = len(lines)
        lines += ["}\tt_a;", "", "#endif"]
        return name, "\n".join(lines) + "\n", m
    raise KeyError(kind)


# -- 25 lines -------------------------------------------------------------------------------------
def body_units(d, n, ndecl):
    """statement lines (depth 1) filling exactly n - (ndecl + 1 if ndecl) lines"""
    left = n - (ndecl + 1 if ndecl else 0)
    out = []
    guard = 0
    while left > 0 and guard < 200:
        guard += 1
        k = d.weighted([(4, "simple"), (2, "if1"), (2, "ifb"), (2, "ifelse"), (2, "cont"), (1, "whileempty"), (1, "nest2"), (1, "nest3")])
        unit = {
            "simple": ["\ta = ft_b(a);"],
            "if1": ["\tif (a)", "\t\ta++;"],
            "ifb": ["\twhile (a)", "\t{", "\t\ta--;", "\t}"],
            "ifelse": ["\tif (a)", "\t\ta++;", "\telse", "\t\ta--;"],
            "cont": ["\tft_c(a,", "\t\ta);"],
            "whileempty": ["\twhile (ft_b(a))", "\t\t;"],
            "nest2": ["\twhile (a)", "\t\tif (a)", "\t\t\ta--;"],
            "nest3": ["\tif (a)", "\t\twhile (a)", "\t\t\tif (a)", "\t\t\t\ta--;"],
        }[k]
        if len(unit) <= left:
            out += unit
            left -= len(unit)
    return out


def build_lines(d, n, ctx):
    name = "test.h" if ctx.get("in_header") else "test.c"
    ndecl = ctx["ndecl"] if n - (ctx["ndecl"] + 1) >= 1 else 0
    decls = ["\tint\tv%d;" % i for i in range(ndecl)]
    body = decls + ([""] if ndecl else []) + body_units(d, n, ndecl)
    if len(body) != n:
        return None
    funcs = []
    for k in range(ctx["nfuncs"]):
        if k == ctx["which"]:
            funcs.append(["int\tft_measured(int a)", "{"] + body + ["}"])
        else:
            funcs.append(simple_func("ft_o%d" % k, ctx["other_sizes"][k % len(ctx["other_sizes"])]))
    lines = hdr(name) + (["#ifndef TEST_H", "# define TEST_H", ""] if ctx.get("in_header") else [])
    span = None
    for k, f in enumerate(funcs):
        if k:
            lines.append("")
        start = len(lines) + 1
        lines += f
        if k == ctx["which"]:
            span = (start, len(lines))
    if ctx.get("in_header"):
        lines += ["", "#endif"]
    return name, "\n".join(lines) + "\n", span


def build_funcs(d, n, ctx):
    name = "test.c"
    lines = hdr(name)
    if ctx["protos"]:
        for k in range(min(n, 3)):
            lines.append("static int\tft_s%d(void);" % k)
        lines.append("")
    for k in range(n):
        if k:
            lines.append("")
        fl = simple_func(("ft_s%d" if ctx["protos"] and k < 3 else "ft_f%d") % k, ctx["sizes"][k % len(ctx["sizes"])], static=ctx["protos"] and k < 3)
        if ctx.get("pp") is not None and k == ctx["pp"] % n:
            # a conditional block between the declarator and the brace (debug hooks are written like this): still one function
            fl[1:1] = ["#ifdef FT_DEBUG", "#endif"] if ctx.get("pp_kind", 0) == 0 else ["#ifdef FT_DEBUG", "# define FT_TRACE 1", "#endif"]
        elif ctx.get("cmt") is not None and k == ctx["cmt"] % n:
            fl[1:1] = ["// the body follows"]
        lines += fl
    return name, "\n".join(lines) + "\n", None


PARAM_FORMS = ["int p%d", "char *p%d", "int p%d[3]", "const char *p%d", "int (*p%d)(int, char)", "void *p%d", "char **p%d", "unsigned int p%d",
               "void (*p%d)(void *, int, int)", "t_list *p%d", "struct s_x *p%d", "int p%d[2][2]", "char *const p%d", "void *(*p%d)(void *)", "size_t p%d",
               "char *p%d[]", "union u_v p%d", "enum e_k p%d", "long long p%d"]


def build_params(d, n, ctx):
    name = "test.c" if ctx["where"] == "def" else "test.h"
    params = ", ".join(ctx["forms"][k % len(ctx["forms"])] % k for k in range(n))
    if ctx.get("variadic") and n >= 1:
        params += ", ..."       # not a named parameter: the measure stays n
    if ctx["where"] in ("def-fptr-ret", "proto-fptr-ret"):
        # the function returns a pointer to function: its own parameters are the inner list
        ret_params = ", ".join(["int"] * ctx.get("ret_n", 1))
        decl = "void\t(*ft_m(%s))(%s)" % (params, ret_params)
        if vwidth(decl) > 79:
            return None
        if ctx["where"] == "def-fptr-ret":
            name = "test.c"
            lines = hdr(name) + simple_func("ft_before", 2) + [""]
            m = len(lines) + 1
            lines += [decl, "{", "\treturn (NULL);", "}"]
        else:
            name = "test.h"
            lines = hdr(name) + ["#ifndef TEST_H", "# define TEST_H", "", "void\tft_other(int a, int b);"]
            m = len(lines) + 1
            lines += [decl + ";", "", "#endif"]
        return name, "\n".join(lines) + "\n", (m, m)
    if ctx["where"] == "def":
        head = "int\tft_m(%s)" % params
        if vwidth(head) > 80:
            return None
        lines = hdr(name) + simple_func("ft_before", 2) + [""]
        m = len(lines) + 1
        lines += [head, "{", "\treturn (0);", "}"]
    else:
        proto = "int\tft_m(%s);" % params
        if vwidth(proto) > 80:
            return None
        lines = hdr(name) + ["#ifndef TEST_H", "# define TEST_H", "", "int\tft_other(int a, int b);"]
        m = len(lines) + 1
        lines += [proto, "", "#endif"]
    return name, "\n".join(lines) + "\n", (m, m)


DECL_FORMS = ["int\t\t\tv%d;", "char\t\t*v%d;", "static int\tv%d = 0;", "char\t\tv%d[12];", "int\t\t\t(*v%d)(int, int);", "long\t\tv%d;", "const char\t*v%d;",
              "char\t\tv%d[sizeof(long)];", "char\t\tv%d[(4 + 4)];", "int\t\t\tv%d[2][3];", "t_list\t\t*v%d;", "struct s_x\tv%d;", "char\t\tv%d['z' - 'a' + 1];",
              "long long\tv%d;", "char\t\t**v%d;", "void\t\t*(*v%d)(void *);", "t_list\t\tv%d;", "size_t\t\tv%d;", "char\t\tv%d[SIZE + 1];", "union u_v\tv%d;",
              "const int\tv%d = 3;"]


def build_vars(d, n, ctx):
    name = "test.c"
    decls = ["\t" + ctx["forms"][k % len(ctx["forms"])] % k for k in range(n)]
    lines = hdr(name)
    if ctx["before"]:
        lines += ["int\tft_before(void)", "{"] + ["\tint\t\t\tw%d;" % k for k in range(ctx["before"])] + ["", "\treturn (0);", "}", ""]
    start = len(lines) + 1
    late = ctx.get("late", 0) if n >= 2 else 0
    if late:
        # `late` of the n variables are declared behind the first statement (misplaced, but variables all the same)
        top, rest = decls[:n - late], decls[n - late:]
        lines += ["int\tft_m(void)", "{"] + top + ["", "\tft_before();"] + rest + ["\treturn (0);", "}"]
    else:
        lines += ["int\tft_m(void)", "{"] + decls + ["", "\treturn (0);", "}"]
    return name, "\n".join(lines) + "\n", (start, len(lines))


@composite
def context(d):
    limit = d.weighted([(5, "cols"), (2, "lines"), (1, "funcs"), (2, "params"), (2, "vars")])
    if limit == "cols":
        kind = d.choice(COL_KINDS)
        return limit, {"kind": kind, "ftype": "h" if d.bool(0.25) and kind in ("global", "proto", "define", "line-comment", "block-one", "trailing-comment",
                                                                              "block-first", "block-interior", "block-last") else "c",
                       "depth": d.int(1, 4), "nest_kw": d.choice(["if", "while"]), "salt": d.int(0, 11), "pos": d.choice(["first", "interior"])}, d
    if limit == "lines":
        nf = d.int(1, 5)
        return limit, {"ndecl": d.int(0, 5), "nfuncs": nf, "which": d.int(0, nf - 1), "other_sizes": [d.int(1, 25) for _ in range(3)], "in_header": d.bool(0.25)}, d
    if limit == "funcs":
        return limit, {"protos": d.bool(0.4), "sizes": [d.int(1, 6) for _ in range(4)], "pp": d.int(0, 9) if d.bool(0.3) else None, "pp_kind": d.int(0, 1),
                       "cmt": d.int(0, 9) if d.bool(0.2) else None}, d
    if limit == "params":
        return limit, {"where": d.choice(["def", "proto", "def-fptr-ret", "proto-fptr-ret"]), "forms": [d.choice(PARAM_FORMS) for _ in range(4)], "ret_n": d.int(1, 6), "variadic": d.bool(0.15)}, d
    return limit, {"forms": [d.choice(DECL_FORMS) for _ in range(4)], "before": d.int(0, 5), "late": d.weighted([(4, 0), (1, 1), (1, 2)])}, d


def ctx_class(limit, ctx):
    if limit == "cols":
        return "%s/%s%s" % (ctx["kind"], ctx["ftype"], ("/d%d" % ctx["depth"]) if ctx["kind"].startswith(("stmt", "ctrl")) else "")
    if limit == "lines":
        return "f%d/of%d/decl%d%s" % (ctx["which"], ctx["nfuncs"], ctx["ndecl"], "/in-header" if ctx.get("in_header") else "")
    if limit == "funcs":
        return ("protos" if ctx["protos"] else "plain") + ("/directive-before-brace" if ctx.get("pp") is not None else "/comment-before-brace" if ctx.get("cmt") is not None else "")
    if limit == "params":
        return ctx["where"] + ("/fptr" if any("(*" in f for f in ctx["forms"]) else "")
    return "before%d%s%s" % (ctx["before"], "/fptr" if any("(*" in f for f in ctx["forms"]) else "", "/late" if ctx.get("late") else "")


def evaluate(camp, limit, n, ctx, built):
    name, text, where = built
    L = LIMIT[limit]
    code = CODES[limit]
    r = adapters.analyse(name, text)
    cls = ctx_class(limit, ctx)
    camp.case("%s\0%d\0%s\0%s" % (limit, n, cls, text), True)
    camp.count("limit:%s" % limit)
    camp.count("n-L=%+d" % (n - L))
    case = {"limit": limit, "n": n, "class": cls, "name": name, "text": text, "where": where}
    if r.status in ("FATAL", "CRASH"):
        camp.fail("C03|%s|%s" % (limit, r.status), "%s on a constructed program (%s, n=%d): %s" % (r.status, cls, n, r.fatal or r.crash), case)
        return
    hits = [d for d in r.diags if d[1] == code]
    if limit == "cols":
        here = [d for d in hits if d[2] == where]
        other = [d for d in hits if d[2] != where]
        width = vwidth(text.split("\n")[where - 1])
        if width != n:
            raise core.HarnessError("constructed line has width %d, wanted %d (%s)" % (width, n, cls))
    elif where is None:
        here, other = hits, []
    else:
        here = [d for d in hits if where[0] <= d[2] <= where[1]]
        other = [d for d in hits if not (where[0] <= d[2] <= where[1])]
    kind_key = ctx["kind"] if limit == "cols" else cls.split("/")[0] if limit in ("params", "funcs") else ""
    if n > L and not here:
        camp.fail("C03|%s|missing|%s|n=L%+d" % (limit, kind_key, min(n - L, 2)), "%s: measure %d > %d but no %s for the measured object (%s)" % (limit, n, L, code, cls), case)
    if n <= L and here:
        camp.fail("C03|%s|spurious|%s|n=L%+d" % (limit, kind_key, n - L), "%s: measure %d <= %d but %s reported at %s (%s)" % (limit, n, L, code, here[:2], cls), case)
    if other:
        camp.fail("C03|%s|other-object|%s" % (limit, kind_key), "%s reported for another object: %s (%s, n=%d)" % (code, other[:2], cls, n), case)
    others = [d for d in r.diags if d[0] == "Error" and d[1] != code]
    if others and not (limit == "cols" and ctx["kind"] == "last-line-comment-nonl"):
        camp.count("companion:" + others[0][1])


BUILDERS = {"lines": build_lines, "funcs": build_funcs, "params": build_params, "vars": build_vars}


def shard(seed, n_ctx):
    camp = core.Campaign()

    def body(v):
        limit, ctx, d = v
        L = LIMIT[limit]
        lo = max(L - 3, 1 if limit != "funcs" else 2)
        for n in range(lo, L + 7):
            if limit == "cols":
                built = build_cols(d, ctx["kind"], n, ctx)
            else:
                built = BUILDERS[limit](d, n, ctx)
            if built is None:
                camp.count("unbuildable")
                if n in (L, L + 1):
                    camp.count("unbuildable-at-boundary:" + ctx_class(limit, ctx))
                continue
            evaluate(camp, limit, n, ctx, built)
            if n == L + 1 and len(camp.samples) < 4 and camp.evaluations % 7 == 0:
                camp.samples.append({"limit": limit, "n": n, "class": ctx_class(limit, ctx), "measured": built[2], "tail": built[1][-300:]})

    core.hyp_run(body, context(), seed, n_ctx)
    return camp


def replay(pid, case):
    camp = core.Campaign()
    limit = case["limit"]
    ctx = {"kind": case["class"].split("/")[0], "ftype": "c", "depth": 1, "protos": False, "where": "def", "forms": [], "before": 0, "which": 0, "nfuncs": 1, "ndecl": 0}
    where = case["where"]
    if isinstance(where, list):
        where = tuple(where)

    class Fake:
        pass
    ctx_cls = case["class"]
    global ctx_class
    saved = ctx_class
    ctx_class = lambda l, c: ctx_cls
    try:
        evaluate(camp, limit, case["n"], ctx, (case["name"], case["text"], where))
    finally:
        ctx_class = saved
    return [(k, b["what"]) for k, b in camp.buckets.items()]


def run(pid, tier, seed):
    t0 = time.time()
    if vwidth("\tab\tc") != 9:
        raise core.HarnessError("width self-test failed")
    shards, n = (16, 80) if tier == "quick" else (16, 400)
    camp = core.Campaign()
    for name, rc in core.regress_cases(pid):
        for k, what in replay(pid, rc["case"]):
            camp.fail(k, what, rc["case"])
    # every kind of line at the boundary itself (n = L and n = L + 1), independent of what the shards draw
    for kind in COL_KINDS:
        for depth in (1, 3):
            ctx = {"kind": kind, "ftype": "c", "depth": depth, "nest_kw": "if", "salt": depth, "pos": "interior"}
            for nn in (80, 81):
                built = build_cols(None, kind, nn, ctx)
                if built is not None:
                    evaluate(camp, "cols", nn, ctx, built)
    camp.merge(core.run_shards(shard, [dict(seed=core.seed_of(seed, s, 3), n_ctx=n) for s in range(shards)]))
    return core.finish(pid, tier, seed, camp, RULE, t0, replay_fn=replay, assumptions=["widths are visual columns of ASCII text, tab stops every 4"])
