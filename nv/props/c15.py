"""C15 — exactly the requested C sources are checked (DESIGN §4.15)."""
import collections
import os
import subprocess
import time

from .. import adapters, core, header42
from ..draw import composite

RULE = ("generated directory trees (depth <= 3, names with spaces and inner dots, look-alike suffixes .cc .hh .C .H .cpp .c.bak .ch .o, none, "
        "directories whose own name ends in .c/.h, empty directories, non-C files) x generated argument lists (C files, non-C files, "
        "directories, nested directories, repeated entries, missing paths, '.', no argument) with and without --use-gitignore in a git "
        "work tree with a generated .gitignore (names, dir/, *.ext, negations, anchored paths, dir/*.c, **/name), the ignored set being asked from git by the harness itself; oracle (model of selection): the multiset of verdict base names equals "
        "the union over the arguments, each file once per mention; a non-C argument gets the rejection message and no verdict; a missing path "
        "gives exit != 0, a message naming it and no verdict line; git-ignored files are left out; exit 0 when >=1 file is selected (all "
        "files are clean); never a traceback; non-trivial = tree with >=2 levels and >=1 look-alike suffix and an argument list mixing >=2 "
        "kinds; distinct by SHA-1 of (tree, argv)")

CLEAN_C = "\n".join(header42.render(dict(header42.DEFAULT, file="x.c"))) + "\n\nint\tft_x(void)\n{\n\treturn (0);\n}\n"
CLEAN_H = "\n".join(header42.render(dict(header42.DEFAULT, file="x.h"))) + "\n\n#ifndef %s\n# define %s\n\nint\tft_x(void);\n\n#endif\n"
SUFFIXES = [".c", ".h", ".c", ".h", ".cc", ".hh", ".C", ".H", ".cpp", ".c.bak", ".ch", ".o", "", ".c ", ".txt", ".hc"]


def guard_of(base):
    return base.upper().replace(".", "_")


def gen_name(d, allow_dot=True):
    s = d.choice("abcdefghijklmnopqrstuvwxyz")
    for _ in range(d.int(0, 6)):
        s += d.weighted([(12, d.choice("abcdefghijklmnopqrstuvwxyz")), (2, d.choice("0123456789")), (2, "_"), (1, " "), (1, "."), (1, d.choice("ABCXYZ")),
                                     (1, d.choice(["é", "ü", "ñ", "λ", "-", "+", "'", '"', "#", "~", "$", "@", "[", "]", "(", ")", "&", ";", "=", ",", "!", "%", "{", "}", "^", "`", "\\", "*", "?"]))])
    s = s.strip(" .")
    while ".." in s:
        s = s.replace("..", ".")
    if not allow_dot:
        s = s.replace(".", "_")
    return s or "a"


def gen_tree(d, depth=0, prefix=""):
    """-> dict rel path -> content (str) ; directories are represented by a trailing '/' key with None"""
    out = {}
    names = set()
    for _ in range(d.int(1, 5) if depth == 0 else d.int(0, 4)):
        base = gen_name(d)
        suf = d.choice(SUFFIXES)
        n = base + suf
        if n in names or n.lower() in {x.lower() for x in names}:
            continue
        names.add(n)
        rel = prefix + n
        if n.endswith(".h"):
            g = guard_of(n)
            out[rel] = CLEAN_H % (g, g) if g.isascii() and g.replace("_", "a").isalnum() and not g[0].isdigit() else None
            if out[rel] is None:
                del out[rel]
                names.discard(n)
        else:
            out[rel] = CLEAN_C
    if depth < 3:
        for _ in range(d.int(0, 2)):
            dn = gen_name(d) + d.weighted([(8, ""), (1, ".c"), (1, ".h"), (1, ".d")])
            if dn in names or dn.lower() in {x.lower() for x in names}:
                continue
            names.add(dn)
            out[prefix + dn + "/"] = None
            out.update(gen_tree(d, depth + 1, prefix + dn + "/"))
    return out


def is_c(path):
    return path.endswith(".c") or path.endswith(".h")


def files_under(tree, dirrel):
    """regular files below dirrel ('' = root) whose name ends in .c/.h"""
    pre = dirrel
    return [p for p, c in tree.items() if c is not None and p.startswith(pre) and is_c(os.path.basename(p))]


def gen_ignore(d, tree):
    """-> list of .gitignore lines.  The oracle for 'ignored by git' is git itself (the harness asks `git check-ignore -q`
    for every candidate file, independently of the tool), so any pattern shape may be generated."""
    lines = []
    files = [p for p, c in tree.items() if c is not None]
    dirs = [p.rstrip("/") for p, c in tree.items() if c is None]
    esc = lambda v: "".join("\\" + ch if ch in " \\*?[]#!" else ch for ch in v)
    for _ in range(d.int(0, 4)):
        k = d.weighted([(3, "name"), (2, "dir"), (3, "ext"), (2, "neg-name"), (1, "neg-ext"), (1, "path"), (1, "dirglob"), (1, "comment"), (1, "starstar")])
        if k == "name" and files:
            lines.append(esc(os.path.basename(d.choice(files))))
        elif k == "dir" and dirs:
            lines.append(esc(os.path.basename(d.choice(dirs))) + "/")
        elif k == "ext":
            lines.append("*" + d.choice([".c", ".h", ".bak", ".[ch]"]))
        elif k == "neg-name" and files:
            lines.append("!" + esc(os.path.basename(d.choice(files))))
        elif k == "neg-ext":
            lines.append("!*" + d.choice([".c", ".h"]))
        elif k == "path" and files:
            lines.append("/" + esc(d.choice(files)))
        elif k == "dirglob" and dirs:
            lines.append(esc(d.choice(dirs)) + "/*" + d.choice([".c", ".h"]))
        elif k == "starstar" and files:
            lines.append("**/" + esc(os.path.basename(d.choice(files))))
        elif k == "comment":
            lines.append("# *.c")
    return lines


def ignore_text(pats):
    return "\n".join(pats) + "\n"


def git_ignored(dname, rels):
    out = set()
    for rel in rels:
        rc = subprocess.run(["git", "check-ignore", "-q", "--", rel], cwd=dname, capture_output=True).returncode
        if rc == 0:
            out.add(rel)
        elif rc != 1:
            raise core.HarnessError("git check-ignore failed on %r" % rel)
    return out


@composite
def case(d):
    tree = gen_tree(d)
    files = [p for p, c in tree.items() if c is not None]
    dirs = [p.rstrip("/") for p, c in tree.items() if c is None]
    cfiles = [p for p in files if is_c(os.path.basename(p))]
    other = [p for p in files if not is_c(os.path.basename(p))]
    args = []
    kinds = set()
    for _ in range(d.int(0, 5)):
        k = d.weighted([(5, "cfile"), (2, "other"), (4, "dir"), (1, "dot"), (1, "missing"), (2, "repeat"), (1, "dotslash")])
        if k == "cfile" and cfiles:
            args.append(d.choice(cfiles))
        elif k == "other" and other:
            args.append(d.choice(other))
        elif k == "dir" and dirs:
            args.append(d.choice(dirs) + ("/" if d.bool(0.2) else ""))
        elif k == "dot":
            args.append(".")
        elif k == "missing":
            args.append(d.choice(["nothere.c", "no such dir", "zz/nofile.h"]))
        elif k == "repeat" and args:
            args.append(d.choice(args))
        elif k == "dotslash" and cfiles:
            args.append("./" + d.choice(cfiles))
        else:
            continue
        kinds.add(k)
    use_git = d.bool(0.4)
    pats = gen_ignore(d, tree) if use_git else []
    return tree, args, use_git, pats, sorted(kinds)


def expected(tree, args, use_git, ignored_set):
    """-> (Counter of verdict base names, rejected names, missing path or None)"""
    sel = []
    rejected = []
    items = list(args) if args else None
    if items is None:
        sel = files_under(tree, "")
    else:
        for a in items:
            rel = a[2:] if a.startswith("./") else a
            rel = rel.rstrip("/") if rel != "." else rel
            if rel == ".":
                sel += files_under(tree, "")
            elif rel in tree and tree[rel] is not None:
                if is_c(os.path.basename(rel)):
                    sel.append(rel)
                else:
                    rejected.append(os.path.basename(rel))
            elif rel + "/" in tree:
                sel += files_under(tree, rel + "/")
            else:
                return None, rejected, a
    if use_git:
        sel = [p for p in sel if p not in ignored_set]
    return collections.Counter(os.path.basename(p) for p in sel), rejected, None


def run_case(camp, tree, args, use_git, pats, kinds, cli, label="forked"):
    with adapters.scratch() as dname:
        for rel, content in tree.items():
            if content is None:
                os.makedirs(os.path.join(dname, rel), exist_ok=True)
        adapters.write_tree(dname, {p: c for p, c in tree.items() if c is not None})
        if use_git:
            subprocess.run(["git", "init", "-q"], cwd=dname, capture_output=True)
            with open(os.path.join(dname, ".gitignore"), "w") as f:
                f.write(ignore_text(pats))
        ign = git_ignored(dname, [p for p, c in tree.items() if c is not None and is_c(os.path.basename(p))]) if use_git else set()
        res = cli(list(args) + ["--no-colors"] + (["--use-gitignore"] if use_git else []), dname)
    exp, rejected, missing = expected(tree, args, use_git, ign)
    if use_git and ign:
        camp.count("cases-with-ignored-C-files")
    if use_git and any(l.startswith("!") for l in pats):
        camp.count("gitignore-with-negation")
    depth = max(p.count("/") for p in tree) if tree else 0
    lookalike = any(os.path.basename(p).endswith((".cc", ".hh", ".C", ".H", ".c.bak", ".ch", ".c ", ".hc")) for p, c in tree.items() if c is not None)
    camp.case(core.sha([sorted(tree), args, use_git, pats, label]), depth >= 1 and lookalike and len(kinds) >= 2)
    camp.count("args=%d" % len(args))
    for k in kinds:
        camp.count("argkind:" + k)
    if use_git:
        camp.count("use-gitignore")
    dir_c = any(c is None and is_c(p.rstrip("/")) for p, c in tree.items())
    if dir_c:
        camp.count("tree-with-dir-named-like-C-file")
    case_d = {"tree": {p: (None if c is None else ("H" if p.endswith(".h") else "C")) for p, c in tree.items()}, "args": args, "use_git": use_git, "pats": pats}
    if res.traceback:
        camp.fail("C15|traceback|%s" % ("no-file-selected" if exp is not None and not exp else "other"), res.err.strip().split("\n")[-1][:150], case_d)
        return res
    files, other = adapters.parse_humanized(res.out)
    got = collections.Counter(os.path.basename(f["name"]) for f in files)
    if missing is not None:
        if res.code == 0:
            camp.fail("C15|missing-path-exit-0", "missing path %r but exit status 0" % missing, case_d)
        if files:
            camp.fail("C15|missing-path-verdicts", "missing path %r but verdict lines were printed" % missing, case_d)
        if not any(missing.rstrip("/") in l for l in other):
            camp.fail("C15|missing-path-message", "no message naming %r; stdout %r" % (missing, res.out[:200]), case_d)
        return res
    if got != exp:
        extra = got - exp
        lost = exp - got
        why = "duplicates" if extra and not lost and set(extra) <= set(exp) else "extra" if extra and not lost else "lost" if lost and not extra else "both"
        tag = "dir-named-like-C-file" if dir_c and why == "duplicates" else "gitignore" if use_git else "plain"
        camp.fail("C15|selection|%s|%s" % (why, tag), "checked %s, expected %s (extra %s, lost %s)" % (dict(got), dict(exp), dict(extra), dict(lost)), case_d)
    for n in rejected:
        msg = "Error: %r is not valid C or C header file" % n
        if msg not in res.out:
            camp.fail("C15|rejection-message", "no rejection message for %r; stdout %r" % (n, res.out[:200]), case_d)
    if any(f["verdict"] != "OK" for f in files):
        camp.fail("C15|verdict-of-clean-file", "a clean file was reported %s" % [f for f in files if f["verdict"] != "OK"][:1], case_d)
    if sum(exp.values()) >= 1 and res.code != 0:
        camp.fail("C15|exit-status", "all selected files are clean but exit status %s" % res.code, case_d)
    return res


def shard(seed, n, real_every):
    camp = core.Campaign()
    st = {"i": 0}

    def body(v):
        tree, args, use_git, pats, kinds = v
        st["i"] += 1
        a = run_case(camp, tree, args, use_git, pats, kinds, adapters.forked_cli)
        if real_every and st["i"] % real_every == 0:
            b = run_case(core.Campaign(), tree, args, use_git, pats, kinds, adapters.real_cli, "real")
            camp.count("real-cli-runs")
            if (a.code, sorted(a.out.split("\n")), a.traceback) != (b.code, sorted(b.out.split("\n")), b.traceback):
                raise core.HarnessError("forked and real CLI disagree on %r: %r vs %r" % (args, (a.code, a.out[:150]), (b.code, b.out[:150], b.err[-150:])))
        if len(camp.samples) < 4 and st["i"] % 9 == 1:
            camp.samples.append({"tree": sorted(tree), "argv": args, "use_gitignore": use_git, "gitignore": ignore_text(pats) if use_git else None})

    core.hyp_run(body, case(), seed, n)
    return camp


def replay(pid, case):
    camp = core.Campaign()
    tree = {}
    for p, c in case["tree"].items():
        if c is None:
            tree[p] = None
        elif c == "H":
            g = guard_of(os.path.basename(p))
            tree[p] = CLEAN_H % (g, g)
        else:
            tree[p] = CLEAN_C
    run_case(camp, tree, case["args"], case["use_git"], list(case["pats"]), ["replay", "x"], adapters.forked_cli)
    return [(k, b["what"]) for k, b in camp.buckets.items()]


def run(pid, tier, seed):
    t0 = time.time()
    r = adapters.analyse("x.c", CLEAN_C)
    g = guard_of("ab.h")
    r2 = adapters.analyse("ab.h", CLEAN_H % (g, g))
    if r.status != "OK" or r.has_error() or r2.status != "OK" or r2.has_error():
        raise core.HarnessError("the clean file contents are not clean: %s %s" % (r.diags, r2.diags))
    shards, n, real_every = (16, 60, 30) if tier == "quick" else (16, 400, 5)
    camp = core.Campaign()
    for name, rc in core.regress_cases(pid):
        for k, what in replay(pid, rc["case"]):
            camp.fail(k, what, rc["case"])
    camp.merge(core.run_shards(shard, [dict(seed=core.seed_of(seed, s, 15), n=n, real_every=real_every) for s in range(shards)]))
    return core.finish(pid, tier, seed, camp, RULE, t0, replay_fn=replay, assumptions=[
        "no hidden entries, symlinks or unreadable files; 'ignored by git' is decided by the harness's own `git check-ignore -q` call per file",
        "order of verdict lines inside a directory is not constrained",
    ])
