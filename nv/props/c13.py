"""C13 — the 42 header is recognised exactly (DESIGN §4.13)."""
import time

from .. import adapters, core, header42, prog
from ..draw import composite

RULE = ("stdheader template filled with generated login / mail / file name / timestamps, followed by a generated conforming body (.c or .h, "
        "bodies starting with a directive, a comment, a declaration or a function; with or without an empty line or a comment glued under "
        "the header); each case is run well-formed (INVALID_HEADER must not appear) and under structural mutations of DESIGN §4.13 "
        "(exactly one INVALID_HEADER); every 12th text also through the command line, as a stored file and as inline content (--cfile/--hfile with --filename), "
        "with the same expected count; quick: 4 mutations per case, thorough: all 27; non-trivial = every (field tuple, mutation) pair, "
        "distinct by SHA-1 of the text")


@composite
def case(d):
    ftype = "h" if d.bool(0.35) else "c"
    p = prog.gen_h(d, {"small": True}) if ftype == "h" else prog.gen_c(d, {"small": True})
    fields = header42.fields(d, p.name if d.bool(0.6) else None)
    body_lines = [ln.text for ln in p.lines[12:]]
    glue = d.weighted([(6, "blank"), (2, "comment-below"), (1, "comment-glued"), (1, "line-comment-glued"), (1, "line-comment-below")])
    nmut = d.int(0, 10 ** 6)
    return p.name, fields, body_lines, glue, nmut


def assemble(hdr_lines, body_lines, glue):
    mid = [""]
    if glue == "comment-below":
        mid = ["", "/* about this file */"]
    elif glue == "comment-glued":
        mid = ["/* about this file */", ""]
    elif glue == "line-comment-glued":
        mid = ["// about this file", ""]
    elif glue == "line-comment-below":
        mid = ["", "// about this file"]
    return "\n".join(hdr_lines + mid + body_lines) + "\n"


def count_ih(name, text):
    r = adapters.analyse(name, text)
    return r, sum(1 for d in r.diags if d[1] == "INVALID_HEADER")


_cli_state = {"k": 0}


def cli_routes(camp, name, text, expect, label):
    """every 12th text also goes through the command line, as a stored file and as inline content (--cfile / --hfile + --filename)"""
    _cli_state["k"] += 1
    if _cli_state["k"] % 12:
        return
    camp.count("cli-routes")
    flag = "--hfile" if name.endswith(".h") else "--cfile"
    with adapters.scratch() as dname:
        adapters.write_tree(dname, {name: text})
        runs = [("file", adapters.forked_cli(["--no-colors", name], dname)),
                ("inline", adapters.forked_cli(["--no-colors", flag, text, "--filename", name], dname))]
    for how, res in runs:
        if res.traceback:
            camp.count("cli-traceback(->C05)")
            continue
        files, _ = adapters.parse_humanized(res.out)
        if len(files) != 1 or files[0]["fatal"]:
            continue
        n = sum(1 for d in files[0]["diags"] if d[1] == "INVALID_HEADER")
        if n != expect:
            camp.fail("C13|cli-%s|%s|count=%d" % (how, label.split(".")[0], min(n, 2)), "%s through the command line (%s): INVALID_HEADER reported %d times, expected %d" % (label, how, n, expect),
                      {"name": name, "text": text, "expect": expect, "route": how})


def check(camp, name, fields, body_lines, glue, mids):
    hdr = header42.render(fields)
    if any(len(x) != 80 for x in hdr):
        raise core.HarnessError("template produced a line that is not 80 columns: %r" % fields)
    text = assemble(hdr, body_lines, glue)
    r, n = count_ih(name, text)
    camp.case(text, True)
    camp.count("wellformed:" + glue)
    if n != 0:
        camp.fail("C13|wellformed|%s" % glue, "well-formed header reported INVALID_HEADER %d time(s); fields %r" % (n, fields),
                  {"name": name, "text": text, "expect": 0})
    else:
        cli_routes(camp, name, text, 0, "wellformed")
        # the same file with DOS / old-Mac line ends, handed over as text (the tool translates them): still a well-formed header
        for eol, label in (("\r\n", "crlf"), ("\r", "cr")):
            r2, n2 = count_ih(name, text.replace("\n", eol))
            camp.case(label + "\0" + text, True)
            camp.count("wellformed:" + label)
            if n2 != 0 and r2.status not in ("FATAL", "CRASH"):
                camp.fail("C13|wellformed|%s" % label, "well-formed header with %s line ends reported INVALID_HEADER %d time(s)" % (label.upper(), n2),
                          {"name": name, "text": text.replace("\n", eol), "expect": 0})
    # a file that holds nothing but its (well-formed) header: still no INVALID_HEADER, and nothing of it may survive into the next file
    stub = "\n".join(hdr) + ("\n" if len(fields["login"]) % 2 else "")
    r, n = count_ih(name, stub)
    camp.case(stub, True)
    camp.count("wellformed:header-only")
    if n != 0:
        camp.fail("C13|wellformed|header-only", "a file holding only a well-formed header reported INVALID_HEADER %d time(s)" % n, {"name": name, "text": stub, "expect": 0})
    for mid in mids:
        new = header42.mutate(hdr, mid, body_first_line="int\tft_before(void);")
        g = "blank" if glue in ("comment-glued", "line-comment-glued") and mid in ("H1",) else glue
        if mid == "H1":
            t = "\n".join(body_lines) + "\n"
        else:
            t = assemble(new, body_lines, g)
        r, n = count_ih(name, t)
        camp.case(t, True)
        camp.count("mutation:" + mid)
        if r.status in ("FATAL", "CRASH"):
            camp.fail("C13|%s|%s" % (mid, r.status), "mutated header: %s %s" % (r.status, r.fatal or r.crash), {"name": name, "text": t, "expect": 1})
        elif n != 1:
            camp.fail("C13|%s|count=%d" % (mid.split(".")[0], min(n, 2)), "mutation %s: INVALID_HEADER reported %d times (expected exactly once)" % (mid, n),
                      {"name": name, "text": t, "expect": 1, "mutation": mid})
        else:
            cli_routes(camp, name, t, 1, mid)


def shard(seed, n, all_mut):
    camp = core.Campaign()
    M = header42.MUTATIONS

    def body(v):
        name, fields, body_lines, glue, nmut = v
        mids = M if all_mut else [M[(nmut + 7 * k) % len(M)] for k in range(4)]
        check(camp, name, fields, body_lines, glue, mids)
        if len(camp.samples) < 3 and camp.evaluations % 23 <= 4:
            camp.samples.append({"fields": fields, "glue": glue, "first_body_line": body_lines[0] if body_lines else ""})

    core.hyp_run(body, case(), seed, n)
    return camp


def replay(pid, case):
    if case.get("route"):
        camp = core.Campaign()
        _cli_state["k"] = 11
        cli_routes(camp, case["name"], case["text"], case["expect"], case.get("mutation", "replay"))
        return [(k, b["what"]) for k, b in camp.buckets.items()]
    r, n = count_ih(case["name"], case["text"])
    if n != case["expect"]:
        return [("C13|replay|count=%d" % n, "INVALID_HEADER reported %d times, expected %d" % (n, case["expect"]))]
    return []


def run(pid, tier, seed):
    t0 = time.time()
    if any(len(x) != 80 for x in header42.render(header42.DEFAULT)):
        raise core.HarnessError("template self-test failed")
    shards, n, allm = (16, 50, False) if tier == "quick" else (16, 500, True)
    camp = core.Campaign()
    for name, rc in core.regress_cases(pid):
        for k, what in replay(pid, rc["case"]):
            camp.fail(k, what, rc["case"])
    camp.merge(core.run_shards(shard, [dict(seed=core.seed_of(seed, s, 13), n=n, all_mut=allm) for s in range(shards)]))
    camp.extra["mutations"] = list(header42.MUTATIONS)
    return core.finish(pid, tier, seed, camp, RULE, t0, replay_fn=replay, assumptions=["field values fit the template's widths; only the listed single mutations"])
